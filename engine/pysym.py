"""E2 - pysym: a small symbolic interpreter over the Python AST of numeric kernels.

The functions are read with inspect.getsource from the modules under /repo/src on every run; nothing
is cached.  Python float -> z3 Float64 (every operation RNE); bounded symbolic int -> signed BitVec(W)
(exact conversion to float with fpSignedToFP; callers assert the range so nothing wraps); bool -> z3
Bool.  Control flow on symbolic conditions forks the state (path enumeration); loops are unrolled over
lists of concrete length.  Anything the interpreter does not recognise raises Untranslatable - the
caller turns that into exit 3, never into a pass.
"""
import ast
import inspect
import textwrap

import z3

F64 = z3.Float64()
RNE = z3.RNE()
W = 16


class Untranslatable(Exception):
    pass


# ---------------------------------------------------------------------------------------------
# values
# ---------------------------------------------------------------------------------------------
class SFloat:
    def __init__(self, e):
        self.e = e


class SInt:
    def __init__(self, e):
        self.e = e  # BitVec(W), signed


class SBool:
    def __init__(self, e):
        self.e = e


class Opaque:
    """an object the arithmetic does not depend on; attribute access / calls are answered by stubs"""

    def __init__(self, name, attrs=None, methods=None):
        self.name = name
        self.attrs = attrs or {}
        self.methods = methods or {}

    def __repr__(self):
        return f"<opaque {self.name}>"


class SymList:
    """a list whose length is an int or SInt; elements (if given) are stub objects"""

    def __init__(self, length, elems=None):
        self.length = length
        self.elems = elems


class Container(Opaque):
    """set/dict stub: `x in c` answers `contains` (python bool or SBool); writes are ignored"""

    def __init__(self, name, contains):
        super().__init__(name)
        self.contains = contains


class _Raised:
    def __repr__(self):
        return "<RAISED>"


RAISED = _Raised()  # value of an expression whose evaluation raised (propagates to the statement)


def fp(v):
    if isinstance(v, SFloat):
        return v.e
    if isinstance(v, SInt):
        return z3.fpSignedToFP(RNE, v.e, F64)
    if isinstance(v, bool):
        return z3.FPVal(float(v), F64)
    if isinstance(v, (int, float)):
        return z3.FPVal(float(v), F64)
    raise Untranslatable(f"cannot use {v!r} as float")


def is_floaty(v):
    return isinstance(v, (SFloat, float))


def bv(v):
    if isinstance(v, SInt):
        return v.e
    if isinstance(v, bool):
        return z3.BitVecVal(int(v), W)
    if isinstance(v, int):
        return z3.BitVecVal(v, W)
    raise Untranslatable(f"cannot use {v!r} as int")


def truth(v):
    """python truthiness -> python bool or z3 Bool"""
    if isinstance(v, SBool):
        return v.e
    if isinstance(v, bool):
        return v
    if isinstance(v, SInt):
        return v.e != 0
    if isinstance(v, SFloat):
        return z3.Not(z3.fpIsZero(v.e))
    if isinstance(v, (int, float)):
        return bool(v)
    if isinstance(v, SymList):
        return truth(v.length)
    if isinstance(v, (list, tuple, str)):
        return len(v) > 0
    if v is None:
        return False
    if isinstance(v, Opaque):
        return True
    raise Untranslatable(f"truthiness of {v!r}")


class State:
    def __init__(self, env, pc=None, yields=None, notes=None):
        self.env = env
        self.pc = pc or []
        self.yields = yields or []
        self.notes = notes or []

    def fork(self):
        return State(dict(self.env), list(self.pc), list(self.yields), list(self.notes))


class Interp:
    def __init__(self, methods, call_stubs, max_states=4096):
        """methods: name -> python function to inline (source read now); call_stubs: name -> callable(interp,
        state, args) -> value for free functions / constructors / methods on opaque objects"""
        self.fn_ast = {}
        self.encoded = []
        for name, fn in methods.items():
            src = textwrap.dedent(inspect.getsource(fn))
            tree = ast.parse(src).body[0]
            if not isinstance(tree, ast.FunctionDef):
                raise Untranslatable(f"{name}: not a plain function")
            self.fn_ast[name] = tree
            self.encoded.append(f"{fn.__module__}.{fn.__qualname__}")
        self.call_stubs = call_stubs
        self.globals = {}
        self.assume = []  # z3 facts used to prune infeasible branches (sound: both kept on unknown)
        self._psolver = None
        self.pruned = 0
        self.max_states = max_states
        self.nstates = 0

    def feasible(self, st, cond):
        """False only if assume + path condition + cond is unsat (quick check; unknown -> True)"""
        if self._psolver is None:
            self._psolver = z3.Solver()
            self._psolver.set("timeout", 300)
            self._psolver.add(*self.assume)
        ps = self._psolver
        ps.push()
        try:
            ps.add(*st.pc)
            ps.add(cond)
            r = ps.check()
        finally:
            ps.pop()
        if str(r) == "unsat":
            self.pruned += 1
            return False
        return True

    # -- expressions (may fork: returns list of (state, value)) --------------------------------
    def ev(self, node, st):
        m = getattr(self, "ev_" + type(node).__name__, None)
        if m is None:
            raise Untranslatable(f"expression {type(node).__name__} at line {getattr(node, 'lineno', '?')}: {ast.unparse(node)}")
        return m(node, st)

    def seq(self, nodes, st):
        """evaluate sub-expressions left to right; -> list of (state, [values]) or (state, RAISED)"""
        outs = [(st, [])]
        for e in nodes:
            nxt = []
            for s, acc in outs:
                if acc is RAISED:
                    nxt.append((s, RAISED))
                    continue
                for s2, v in self.ev(e, s):
                    nxt.append((s2, RAISED if v is RAISED else acc + [v]))
            outs = nxt
        return outs

    def ev_Constant(self, node, st):
        return [(st, node.value)]

    def ev_Name(self, node, st):
        if node.id in st.env:
            return [(st, st.env[node.id])]
        if node.id in self.globals:
            return [(st, self.globals[node.id])]
        if node.id in self.call_stubs:
            return [(st, ("stub", node.id))]
        raise Untranslatable(f"unknown name {node.id} (line {node.lineno})")

    def ev_Tuple(self, node, st):
        return [(s, RAISED if a is RAISED else tuple(a)) for s, a in self.seq(node.elts, st)]

    def ev_List(self, node, st):
        return [(s, RAISED if a is RAISED else list(a)) for s, a in self.seq(node.elts, st)]

    def ev_Attribute(self, node, st):
        res = []
        for s, obj in self.ev(node.value, st):
            if obj is RAISED:
                res.append((s, RAISED))
            elif isinstance(obj, Opaque):
                if node.attr in obj.attrs:
                    res.append((s, obj.attrs[node.attr]))
                elif node.attr in obj.methods:
                    res.append((s, ("method", obj, node.attr)))
                elif ("." + node.attr) in self.call_stubs:
                    res.append((s, ("anymethod", obj, node.attr)))
                else:
                    raise Untranslatable(f"attribute {obj.name}.{node.attr} (line {node.lineno})")
            elif isinstance(obj, (list, SymList)) and ("." + node.attr) in self.call_stubs:
                res.append((s, ("anymethod", obj, node.attr)))
            else:
                raise Untranslatable(f"attribute {node.attr} of {obj!r} (line {node.lineno})")
        return res

    def ev_Call(self, node, st):
        if node.keywords:
            raise Untranslatable(f"keyword call (line {node.lineno})")
        res = []
        for s, f in self.ev(node.func, st):
            if f is RAISED:
                res.append((s, RAISED))
                continue
            for s1, args in self.seq(node.args, s):
                if args is RAISED:
                    res.append((s1, RAISED))
                else:
                    res.extend(self.call(f, args, s1, node))
        return res

    def call(self, f, args, st, node):
        if isinstance(f, tuple) and f[0] == "stub":
            return self._norm(self.call_stubs[f[1]](self, st, args), st)
        if isinstance(f, tuple) and f[0] == "method":
            _, obj, name = f
            target = obj.methods[name]
            if isinstance(target, str):  # inline a real method
                return self.run_function(target, [obj] + args, st)
            return self._norm(target(self, st, obj, args), st)
        if isinstance(f, tuple) and f[0] == "anymethod":
            _, obj, name = f
            return self._norm(self.call_stubs["." + name](self, st, [obj] + args), st)
        raise Untranslatable(f"call of {f!r} (line {node.lineno}): {ast.unparse(node)}")

    @staticmethod
    def _norm(r, st):
        if isinstance(r, list) and r and isinstance(r[0], tuple) and len(r[0]) == 2 and isinstance(r[0][0], State):
            return r
        return [(st, r)]

    def ev_BinOp(self, node, st):
        return [(s, RAISED if v is RAISED else self.binop(node.op, v[0], v[1], node))
                for s, v in self.seq([node.left, node.right], st)]

    def binop(self, op, a, b, node):
        floaty = is_floaty(a) or is_floaty(b) or isinstance(op, ast.Div)
        if isinstance(op, ast.Div):
            return SFloat(z3.fpDiv(RNE, fp(a), fp(b)))
        if floaty:
            if isinstance(op, ast.Add):
                return SFloat(z3.fpAdd(RNE, fp(a), fp(b)))
            if isinstance(op, ast.Sub):
                return SFloat(z3.fpSub(RNE, fp(a), fp(b)))
            if isinstance(op, ast.Mult):
                return SFloat(z3.fpMul(RNE, fp(a), fp(b)))
        else:
            if isinstance(a, int) and isinstance(b, int):
                return {ast.Add: a + b, ast.Sub: a - b, ast.Mult: a * b}[type(op)]
            if isinstance(op, ast.Add):
                return SInt(bv(a) + bv(b))
            if isinstance(op, ast.Sub):
                return SInt(bv(a) - bv(b))
        raise Untranslatable(f"operator {type(op).__name__} on {a!r},{b!r} (line {node.lineno})")

    def ev_Compare(self, node, st):
        if len(node.ops) != 1:
            raise Untranslatable(f"chained comparison (line {node.lineno})")
        op = node.ops[0]
        return [(s, RAISED if v is RAISED else self.compare(op, v[0], v[1], node))
                for s, v in self.seq([node.left, node.comparators[0]], st)]

    def compare(self, op, a, b, node):
        if isinstance(op, (ast.Is, ast.IsNot)):
            if a is None or b is None:
                same = a is b
                return same if isinstance(op, ast.Is) else not same
            raise Untranslatable(f"identity comparison (line {node.lineno})")
        if isinstance(op, (ast.In, ast.NotIn)):
            if isinstance(b, Container):
                c = b.contains
                if isinstance(op, ast.NotIn):
                    c = (not c) if isinstance(c, bool) else SBool(z3.Not(c.e))
                return c
            raise Untranslatable(f"'in' on {b!r} (line {node.lineno})")
        if is_floaty(a) or is_floaty(b):
            x, y = fp(a), fp(b)
            t = {ast.Eq: z3.fpEQ, ast.NotEq: z3.fpNEQ, ast.Lt: z3.fpLT, ast.LtE: z3.fpLEQ, ast.Gt: z3.fpGT, ast.GtE: z3.fpGEQ}.get(type(op))
            if t is None:
                raise Untranslatable(f"float comparison {type(op).__name__}")
            return SBool(t(x, y))
        if isinstance(a, int) and isinstance(b, int):
            return {ast.Eq: a == b, ast.NotEq: a != b, ast.Lt: a < b, ast.LtE: a <= b, ast.Gt: a > b, ast.GtE: a >= b}[type(op)]
        if isinstance(a, (int, SInt)) and isinstance(b, (int, SInt)):
            x, y = bv(a), bv(b)
            return SBool({ast.Eq: x == y, ast.NotEq: x != y, ast.Lt: x < y, ast.LtE: x <= y, ast.Gt: x > y, ast.GtE: x >= y}[type(op)])
        raise Untranslatable(f"comparison of {a!r} and {b!r} (line {node.lineno})")

    def ev_BoolOp(self, node, st):
        # short-circuit semantics by forking on each operand
        is_and = isinstance(node.op, ast.And)
        results = []

        def go(i, s):
            for s1, v in self.ev(node.values[i], s):
                if i == len(node.values) - 1 or v is RAISED:
                    results.append((s1, v))
                    continue
                t = truth(v)
                if isinstance(t, bool):
                    if t == is_and:
                        go(i + 1, s1)
                    else:
                        results.append((s1, v))
                else:
                    sa, sb = s1.fork(), s1.fork()
                    sa.pc.append(t if is_and else z3.Not(t))
                    go(i + 1, sa)
                    sb.pc.append(z3.Not(t) if is_and else t)
                    results.append((sb, not is_and))

        go(0, st)
        return results

    def ev_UnaryOp(self, node, st):
        res = []
        for s, v in self.ev(node.operand, st):
            if v is RAISED:
                res.append((s, RAISED))
            elif isinstance(node.op, ast.Not):
                t = truth(v)
                res.append((s, (not t) if isinstance(t, bool) else SBool(z3.Not(t))))
            else:
                raise Untranslatable(f"unary {type(node.op).__name__}")
        return res

    def ev_Subscript(self, node, st):
        res = []
        for s2, pair in self.seq([node.value, node.slice], st):
            if pair is RAISED:
                res.append((s2, RAISED))
                continue
            obj, idx = pair
            if True:
                if isinstance(obj, (tuple, list)) and isinstance(idx, int):
                    res.append((s2, obj[idx]))
                elif isinstance(obj, Container):
                    res.append((s2, Opaque(f"{obj.name}[..]")))
                else:
                    raise Untranslatable(f"subscript of {obj!r} (line {node.lineno})")
        return res

    def ev_JoinedStr(self, node, st):
        return [(st, "<str>")]

    # -- statements: each returns list of (state, control) with control in (None, ('return', v)) --
    def ex_block(self, stmts, st):
        states = [(st, None)]
        for stmt in stmts:
            nxt = []
            for s, ctl in states:
                if ctl is not None:
                    nxt.append((s, ctl))
                else:
                    nxt.extend(self.ex(stmt, s))
            states = nxt
            self.nstates = max(self.nstates, len(states))
            if len(states) > self.max_states:
                raise Untranslatable("state explosion")
        return states

    def ex(self, node, st):
        m = getattr(self, "ex_" + type(node).__name__, None)
        if m is None:
            raise Untranslatable(f"statement {type(node).__name__} at line {node.lineno}: {ast.unparse(node)[:80]}")
        return m(node, st)

    def assign(self, target, value, st):
        if isinstance(target, ast.Name):
            st.env[target.id] = value
        elif isinstance(target, (ast.Tuple, ast.List)):
            if not isinstance(value, (tuple, list)) or len(value) != len(target.elts):
                raise Untranslatable(f"unpacking {value!r} (line {target.lineno})")
            for t, v in zip(target.elts, value):
                self.assign(t, v, st)
        elif isinstance(target, ast.Subscript):
            pass  # writes into caches/containers do not flow into the arithmetic
        elif isinstance(target, ast.Attribute):
            objs = self.ev(target.value, st)
            if len(objs) != 1 or not isinstance(objs[0][1], Opaque):
                raise Untranslatable(f"attribute assignment (line {target.lineno})")
            objs[0][1].attrs[target.attr] = value
        else:
            raise Untranslatable(f"assignment target {type(target).__name__}")

    def ex_Assign(self, node, st):
        out = []
        for s, v in self.ev(node.value, st):
            if v is RAISED:
                out.append((s, ("raise", None)))
                continue
            for t in node.targets:
                self.assign(t, v, s)
            out.append((s, None))
        return out

    def ex_AnnAssign(self, node, st):
        if node.value is None:
            return [(st, None)]
        out = []
        for s, v in self.ev(node.value, st):
            if v is RAISED:
                out.append((s, ("raise", None)))
                continue
            self.assign(node.target, v, s)
            out.append((s, None))
        return out

    def ex_AugAssign(self, node, st):
        out = []
        if isinstance(node.target, ast.Attribute):
            # counters such as self._checks_made += 1 do not flow into the arithmetic
            return [(st, None)]
        for s, cur in self.ev(ast.Name(id=node.target.id, ctx=ast.Load(), lineno=node.lineno), st):
            for s2, v in self.ev(node.value, s):
                if v is RAISED:
                    out.append((s2, ("raise", None)))
                    continue
                s2.env[node.target.id] = self.binop(node.op, cur, v, node)
                out.append((s2, None))
        return out

    def ex_Expr(self, node, st):
        if isinstance(node.value, ast.Yield):
            out = []
            for s, v in self.ev(node.value.value, st):
                s.yields.append(v)
                out.append((s, None))
            return out
        if isinstance(node.value, ast.Constant):
            return [(st, None)]
        return [(s, ("raise", None) if v is RAISED else None) for s, v in self.ev(node.value, st)]

    def ex_Pass(self, node, st):
        return [(st, None)]

    def ex_Return(self, node, st):
        if node.value is None:
            return [(st, ("return", None))]
        return [(s, ("raise", None) if v is RAISED else ("return", v)) for s, v in self.ev(node.value, st)]

    def ex_If(self, node, st):
        out = []
        for s, c in self.ev(node.test, st):
            if c is RAISED:
                out.append((s, ("raise", None)))
                continue
            t = truth(c)
            if isinstance(t, bool):
                out.extend(self.ex_block(node.body if t else node.orelse, s))
            else:
                if self.feasible(s, t):
                    sa = s.fork()
                    sa.pc.append(t)
                    out.extend(self.ex_block(node.body, sa))
                if self.feasible(s, z3.Not(t)):
                    sb = s.fork()
                    sb.pc.append(z3.Not(t))
                    out.extend(self.ex_block(node.orelse, sb))
        return out

    def ex_For(self, node, st):
        if node.orelse:
            raise Untranslatable("for-else")
        out = []
        for s, it in self.ev(node.iter, st):
            if isinstance(it, SymList):
                if not isinstance(it.length, int) or it.elems is None:
                    raise Untranslatable(f"loop over a list of symbolic length (line {node.lineno}) - needs a summary")
                elems = it.elems
            elif isinstance(it, (list, tuple)):
                elems = list(it)
            else:
                raise Untranslatable(f"loop over {it!r} (line {node.lineno})")
            states = [(s, None)]
            for e in elems:
                nxt = []
                for s1, ctl in states:
                    if ctl is not None:
                        nxt.append((s1, ctl))
                        continue
                    self.assign(node.target, e, s1)
                    nxt.extend(self.ex_block(node.body, s1))
                states = nxt
            out.extend(states)
        return out

    def ex_Try(self, node, st):
        if node.finalbody or node.orelse or len(node.handlers) != 1:
            raise Untranslatable(f"try shape (line {node.lineno})")
        h = node.handlers[0]
        if not (isinstance(h.type, ast.Name) and h.type.id == "Exception"):
            raise Untranslatable("except clause other than `except Exception`")
        # statements are executed one by one so that a raising stub aborts the rest of the body
        states = [(st, None, False)]
        for stmt in node.body:
            nxt = []
            for s, ctl, raised in states:
                if ctl is not None or raised:
                    nxt.append((s, ctl, raised))
                    continue
                res = self.ex(stmt, s)
                for s1, c1 in res:
                    if c1 is not None and c1[0] == "raise":
                        nxt.append((s1, None, True))
                    else:
                        nxt.append((s1, c1, False))
            states = nxt
        out = []
        for s, ctl, raised in states:
            if raised:
                if h.name:
                    s.env[h.name] = Opaque("exception")
                out.extend(self.ex_block(h.body, s))
            else:
                out.append((s, ctl))
        return out

    # -- functions ---------------------------------------------------------------------------
    def run_function(self, name, args, st):
        """-> list of (state, return value | RAISED)"""
        fn = self.fn_ast[name]
        params = [a.arg for a in fn.args.args]
        if len(params) != len(args):
            raise Untranslatable(f"arity of {name}")
        saved = st.env
        st.env = dict(zip(params, args))
        results = []
        for s, ctl in self.ex_block(fn.body, st):
            s.env = dict(saved)
            if ctl is not None and ctl[0] == "raise":
                results.append((s, RAISED))
            else:
                results.append((s, ctl[1] if ctl else None))
        return results
