"""Small helpers shared by harness modules; importable with and without CrossHair."""
import json
import os
import sys

REPO_SRC = os.environ.get("FANDANGO_SRC", "/repo/src")
if REPO_SRC not in sys.path[:1]:
    sys.path.insert(0, REPO_SRC)
# production path: exceptions inside constraints are logged, not re-raised
os.environ.pop("FANDANGO_RAISE_ALL_EXCEPTIONS", None)

NATIVE = os.environ.get("VERIF_NATIVE") == "1"

if NATIVE:

    class IgnoreAttempt(BaseException):  # like CrossHair's: must not be swallowed by `except Exception` in the code under test
        """precondition-like assumption violated (native replay: 'input outside the claim')"""

else:
    from crosshair.util import IgnoreAttempt  # type: ignore  # noqa: F401


def assume(cond) -> None:
    if not cond:
        raise IgnoreAttempt("assumption")


# Known-finding exclusions: a JSON list of {"function": name, "predicate": python-expr over args}
_EXCL = json.loads(os.environ.get("VERIF_EXCLUDE", "[]"))


def exclude_known(function: str, **args) -> None:
    """Assume away the witness classes of known findings that were re-confirmed at the start of
    this run (the driver prints a KNOWN-FINDING line for each), so that any counterexample the
    engine returns is a *different* violation."""
    for e in _EXCL:
        if e["function"] == function:
            if eval(e["predicate"], {"__builtins__": __builtins__}, dict(args)):
                raise IgnoreAttempt("known finding class")


import logging

logging.getLogger("fandango").setLevel(logging.CRITICAL)
