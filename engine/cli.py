import importlib
import json
import os
import sys

ROOT = os.path.dirname(os.path.dirname(os.path.abspath(__file__)))
sys.path.insert(0, ROOT)


def main():
    if len(sys.argv) < 2:
        print(__doc__ or "usage: check <id> [quick|thorough] | --replay <file>")
        return 2
    prop = sys.argv[1]
    if len(sys.argv) >= 4 and sys.argv[2] == "--replay":
        from engine import driver

        body = json.load(open(sys.argv[3]))
        if body.get("kind") == "script":
            import subprocess

            p = subprocess.run([driver.PY, os.path.join(ROOT, body["script"])] + [json.dumps(body["args"])],
                               cwd=ROOT, env=driver._env({"VERIF_NATIVE": "1"}))
            return p.returncode
        r = driver.native_replay(os.path.join(ROOT, "harness", body["harness"]), body["function"], body["args"], henv=body.get("env"))
        print(json.dumps(r, indent=1))
        return 1 if r.get("result") == "violated" else 0
    tier = sys.argv[2] if len(sys.argv) > 2 else os.environ.get("VERIF_TIER", "quick")
    mod = importlib.import_module(f"checks.{prop}")
    return mod.run(tier)


if __name__ == "__main__":
    sys.exit(main())
