"""Check driver: known findings -> conformance gate -> CrossHair conditions (+ twins) in parallel ->
native replay of counterexamples -> evidence file -> exit code.

Exit codes: 0 held (only listed known findings hit); 1 replayed violation (VIOLATION line printed);
3 harness error / inconclusive / vacuous twin / conformance mismatch (never counted as a pass).
"""
import concurrent.futures as cf
import fnmatch
import hashlib
import inspect
import json
import os
import subprocess
import sys
import time

ROOT = os.path.dirname(os.path.dirname(os.path.abspath(__file__)))
PY = "/verif/.venv/bin/python"
REPO_SRC = os.environ.get("FANDANGO_SRC", "/repo/src")
JOBS = int(os.environ.get("VERIF_JOBS", "16"))
OUT = os.environ.get("VERIF_OUT", ROOT)  # evidence/ and replays/ are written below this directory (seed-matrix runs use a scratch one)


class Cond:
    def __init__(self, harness, fn, timeout, twin=None, path_timeout=None, note="", env=None):
        self.harness = harness if os.path.isabs(harness) else os.path.join(ROOT, "harness", harness)
        self.fn = fn
        self.timeout = timeout
        self.twin = twin
        self.path_timeout = path_timeout
        self.note = note
        self.env = dict(env or {})  # harness parameters (H_* variables): spec name, bounds

    def tag(self, fn=None):
        e = ",".join(f"{k[2:].lower()}={v}" for k, v in sorted(self.env.items()))
        return f"{os.path.basename(self.harness)}:{fn or self.fn}" + (f"[{e}]" if e else "")


def _env(extra=None):
    e = dict(os.environ)
    e.pop("FANDANGO_RAISE_ALL_EXCEPTIONS", None)
    e["PYTHONHASHSEED"] = "1"
    e["FANDANGO_SRC"] = REPO_SRC
    e["PYTHONDONTWRITEBYTECODE"] = "1"
    if extra:
        e.update(extra)
    return e


def _tagged(out, tag):
    for line in reversed(out.splitlines()):
        if line.startswith(tag + "="):
            return json.loads(line[len(tag) + 1:])
    return None


def run_chrun(harness, fn, timeout, path_timeout, exclude, henv=None):
    cmd = [PY, os.path.join(ROOT, "engine", "chrun.py"), harness, fn, str(timeout)]
    if path_timeout:
        cmd.append(str(path_timeout))
    t0 = time.time()
    try:
        p = subprocess.run(cmd, capture_output=True, text=True, cwd=ROOT,
                           timeout=timeout * 3 + 120,
                           env=_env({"VERIF_EXCLUDE": json.dumps(exclude), **(henv or {})}))
        r = _tagged(p.stdout, "CHRUN")
        if r is None:
            r = {"status": "error", "message": "no verdict: " + (p.stderr or p.stdout)[-1500:], "args": None}
    except subprocess.TimeoutExpired:
        r = {"status": "unknown", "message": "hard wall-clock timeout", "args": None}
    r.setdefault("wall_s", round(time.time() - t0, 2))
    r["function"] = fn
    r["harness"] = os.path.basename(harness)
    r["env"] = henv or {}
    return r


def native_replay(harness, fn, args, alarm=120, henv=None):
    os.makedirs(os.path.join(OUT, "replays", "tmp"), exist_ok=True)
    tmp = os.path.join(OUT, "replays", "tmp", f"{os.getpid()}_{fn}_{abs(hash(json.dumps(args, sort_keys=True)))}.json")
    json.dump(args, open(tmp, "w"))
    try:
        p = subprocess.run([PY, os.path.join(ROOT, "engine", "native.py"), "replay", harness, fn, tmp],
                           capture_output=True, text=True, cwd=ROOT, timeout=alarm + 60,
                           env=_env({"VERIF_NATIVE": "1", "VERIF_EXCLUDE": "[]", "VERIF_REPLAY_ALARM": str(alarm), **(henv or {})}))
        r = _tagged(p.stdout, "NATIVE")
        if r is None:
            if p.returncode == -14:  # SIGALRM: the real code did not return -> for C06 this IS the violation
                r = {"result": "violated", "raised": "no return within %ds (alarm)" % alarm}
            else:
                r = {"result": "error", "stderr": p.stderr[-1500:]}
    except subprocess.TimeoutExpired:
        r = {"result": "violated", "raised": "no return (hard timeout)"}
    finally:
        try:
            os.unlink(tmp)
        except OSError:
            pass
    return r


def conformance(harness, henv=None):
    """native vs traced observations must be identical"""
    henv = henv or {}
    nat = subprocess.run([PY, os.path.join(ROOT, "engine", "native.py"), "conform", harness],
                         capture_output=True, text=True, cwd=ROOT, timeout=900, env=_env({"VERIF_NATIVE": "1", "VERIF_CONFORM": "1", **henv}))
    tr = subprocess.run([PY, os.path.join(ROOT, "engine", "chconf.py"), harness],
                        capture_output=True, text=True, cwd=ROOT, timeout=1800, env=_env({"VERIF_CONFORM": "1", **henv}))
    a = _tagged(nat.stdout, "NATIVE")
    b = _tagged(tr.stdout, "CHCONF")
    if a is None or b is None:
        return False, 0, ["conformance run failed: " + (nat.stderr[-600:] if a is None else tr.stderr[-600:])]
    diffs = []
    for x, y in zip(a["observations"], b["observations"]):
        if x != y:
            diffs.append(f"{x[0]}: native {x[1][:200]} != traced {y[1][:200]}")
    if len(a["observations"]) != len(b["observations"]):
        diffs.append("observation count differs")
    conformance.last_native = a["observations"]
    return not diffs, len(a["observations"]), diffs


def load_known(prop):
    path = os.path.join(ROOT, "known_findings.json")
    if not os.path.exists(path):
        return []
    return [k for k in json.load(open(path)).get("findings", []) if k["property"] == prop and k.get("status", "open") == "open"]


def source_fingerprint(files):
    out = {}
    for f in files:
        p = os.path.join(REPO_SRC, f)
        try:
            out[f] = hashlib.sha256(open(p, "rb").read()).hexdigest()[:16]
        except OSError:
            out[f] = "missing"
    return out


class Run:
    """collects results of one check run and writes the evidence file"""

    def __init__(self, prop, tier, level="other"):
        self.prop = prop
        self.tier = tier
        self.level = level
        self.t0 = time.time()
        self.seed = int(os.environ.get("VERIF_SEED", "0") or 0)
        self.results = []
        self.violations = []
        self.errors = []
        self.known_hit = []
        self.samples = []
        self.extra = {}
        self.assumptions = []
        self.encoded = []
        self.bounds = {}
        self.outside = []
        self.exclude = []

    # ---- known findings -------------------------------------------------------------------
    def confirm_known(self):
        for k in load_known(self.prop):
            w = k.get("witness")
            still = True
            if w is not None and k.get("harness"):
                r = native_replay(os.path.join(ROOT, "harness", k["harness"]), w["function"], w["args"],
                                  alarm=k.get("alarm", 60), henv=w.get("env"))
                still = r.get("result") == "violated"
            elif k.get("probe"):
                p = subprocess.run([PY, os.path.join(ROOT, k["probe"])] + list(k.get("probe_args", [])), capture_output=True, text=True,
                                   cwd=ROOT, env=_env({"VERIF_NATIVE": "1", "PYTHONPATH": ROOT}), timeout=300)
                still = p.returncode == 1
            if still:
                print(f"KNOWN-FINDING: property={self.prop} {k['id']}: {k['what']}", flush=True)
                self.known_hit.append(k["id"])
                for fnpat in k.get("functions", []):
                    self.exclude.append({"functions": fnpat, "predicate": k.get("predicate", "True")})
            else:
                print(f"note: known finding {k['id']} no longer reproduces (repaired?) - its class is searched again", flush=True)

    def exclusions_for(self, fn):
        return [{"function": fn, "predicate": e["predicate"]} for e in self.exclude if fnmatch.fnmatch(fn, e["functions"])]

    # ---- CrossHair conditions -------------------------------------------------------------
    def run_conditions(self, conds, conformance_harnesses=()):
        for h in conformance_harnesses:
            henv = None
            if isinstance(h, tuple):
                h, henv = h
            hp = h if os.path.isabs(h) else os.path.join(ROOT, "harness", h)
            ok, n, diffs = conformance(hp, henv)
            # a conformance input may be the property function itself on a concrete input: a native `False`
            # is then a concrete counterexample against the real code (e.g. state kept in functools caches,
            # which the engine bypasses) - replayed like any other before it is reported
            mains = {c.fn for c in conds if c.harness == hp and c.fn}
            try:
                import importlib.util as _u, ast as _ast
                conf_src = open(hp).read()
            except OSError:
                conf_src = ""
            for (fname, val), item in zip(getattr(conformance, "last_native", []), self._conf_items(hp, henv)):
                if fname in mains and val == "False":
                    args = {f"#{i}": a for i, a in enumerate(item[1])}
                    rp = native_replay(hp, fname, args, henv=henv)
                    if rp.get("result") == "violated":
                        self.add_violation(os.path.basename(hp), fname, args, {"source": "conformance input (concrete)", "native": rp}, henv)
            if ok and n == 0:
                self.errors.append(f"conformance list of {os.path.basename(hp)} is empty")
            self.extra.setdefault("conformance_inputs", 0)
            self.extra["conformance_inputs"] += n
            if not ok:
                self.errors.append(f"conformance gate failed for {os.path.basename(hp)}: {diffs[:3]}")
        jobs = []
        for c in conds:
            if c.fn is not None:  # fn=None: a reachability twin on its own
                jobs.append((c, c.fn, False))
            if c.twin:
                jobs.append((c, c.twin, True))
        # longest first
        jobs.sort(key=lambda j: -j[0].timeout)
        with cf.ThreadPoolExecutor(max_workers=JOBS) as ex:
            futs = {ex.submit(run_chrun, c.harness, fn, c.timeout, c.path_timeout, self.exclusions_for(fn), c.env): (c, fn, is_twin)
                    for c, fn, is_twin in jobs}
            for fut in cf.as_completed(futs):
                c, fn, is_twin = futs[fut]
                r = fut.result()
                r["twin"] = is_twin
                self.results.append(r)
                self._judge(c, fn, is_twin, r)

    def _conf_items(self, hp, henv):
        """the harness' CONFORMANCE list (function name, argument list), read in a native subprocess"""
        code = ("import sys, json, os; sys.path.insert(0, %r); os.environ['VERIF_NATIVE']='1'; os.environ['VERIF_CONFORM']='1'\n"
                "from engine import native\nm = native.load(%r)\n"
                "from engine.chrun import jsonable\nprint('ITEMS=' + json.dumps([[it[0], jsonable(list(it[1]))] for it in getattr(m, 'CONFORMANCE', [])]))" % (ROOT, hp))
        p = subprocess.run([PY, "-c", code], capture_output=True, text=True, cwd=ROOT, env=_env({"VERIF_NATIVE": "1", "VERIF_CONFORM": "1", **(henv or {})}), timeout=600)
        r = _tagged(p.stdout, "ITEMS")
        return r or []

    def _judge(self, c, fn, is_twin, r):
        st = r["status"]
        tag = c.tag(fn)
        if is_twin:
            if st == "refuted" and r.get("args") is not None:
                rp = native_replay(c.harness, fn, r["args"], henv=c.env)
                if rp.get("result") == "violated":
                    r["twin_ok"] = True
                    self.samples.append({"condition": tag, "reaching_input": r["args"]})
                    return
                self.errors.append(f"twin {tag}: witness does not reproduce natively ({rp})")
            elif st == "refuted":
                self.errors.append(f"twin {tag}: refuted but arguments unparsable: {r['message'][:200]}")
            else:
                self.errors.append(f"twin {tag}: {st} - the main condition may be vacuous ({r['message'][:200]})")
            return
        if st == "confirmed":
            return
        if st == "refuted":
            if r.get("args") is None:
                self.errors.append(f"{tag}: counterexample with unparsable arguments: {r['message'][:300]}")
                return
            rp = native_replay(c.harness, fn, r["args"], henv=c.env)
            if rp.get("result") == "violated":
                self.add_violation(os.path.basename(c.harness), fn, r["args"], {"engine": r["message"][:500], "native": rp}, c.env)
            else:
                self.errors.append(f"{tag}: engine counterexample {r['args']} does NOT reproduce natively ({rp.get('result')}) - engine/harness fault")
            return
        self.errors.append(f"{tag}: inconclusive ({st}): {r['message'][:300]}")

    def add_violation(self, harness, fn, args, observed, henv=None):
        d = os.path.join(OUT, "replays", self.prop)
        os.makedirs(d, exist_ok=True)
        body = {"property": self.prop, "harness": harness, "function": fn, "env": henv or {}, "args": args, "observed": observed}
        h = hashlib.sha256(json.dumps([harness, fn, henv, args], sort_keys=True).encode()).hexdigest()[:12]
        path = os.path.join(d, h + ".json")
        json.dump(body, open(path, "w"), indent=1)
        self.violations.append(path)
        print(f"VIOLATION property={self.prop} replay={path}", flush=True)

    # ---- evidence -------------------------------------------------------------------------
    def finish(self, explanation, rule):
        main = [r for r in self.results if not r.get("twin")]
        twins = [r for r in self.results if r.get("twin")]
        paths = sum(r.get("paths", 0) for r in self.results)
        cov = {
            "explanation": explanation,
            "evaluations": max(1, paths + int(self.extra.get("smt_queries", 0))),
            "distinct_nontrivial": sum(r.get("paths", 0) for r in main) + int(self.extra.get("smt_queries_nontrivial", 0)),
            "rule": rule,
            "samples": (self.samples or [{"note": "no sample recorded"}])[:12],
            "conditions": len(main),
            "conditions_confirmed": sum(1 for r in main if r["status"] == "confirmed"),
            "twins_violated": sum(1 for r in twins if r.get("twin_ok")),
            "twins": len(twins),
            "paths_explored": paths,
            "smt_queries": sum(r.get("solver_checks", 0) for r in self.results) + int(self.extra.get("smt_queries", 0)),
            "solver_s": round(sum(r.get("solver_s", 0) for r in self.results) + float(self.extra.get("solver_s", 0)), 2),
            "per_condition": [
                {k: r.get(k) for k in ("harness", "function", "env", "status", "paths", "solver_checks", "solver_s", "wall_s", "twin")}
                for r in sorted(self.results, key=lambda r: (r["harness"], r["function"], json.dumps(r.get("env"), sort_keys=True)))
            ],
            "functions_encoded": self.encoded,
            "bounds": self.bounds,
            "outside_bounds": self.outside,
            "known_findings_reconfirmed": self.known_hit,
            "errors": self.errors[:20],
            "exhaustive": False,
        }
        for k, v in self.extra.items():
            cov.setdefault(k, v)
        ev = {
            "property_id": self.prop,
            "tier": self.tier,
            "seed": self.seed,
            "level": self.level,
            "coverage": cov,
            "assumptions": self.assumptions,
            "wall_s": round(time.time() - self.t0, 2),
            "violations": len(self.violations),
        }
        os.makedirs(os.path.join(OUT, "evidence"), exist_ok=True)
        json.dump(ev, open(os.path.join(OUT, "evidence", f"{self.prop}.json"), "w"), indent=1)
        for e in self.errors:
            print("HARNESS-ERROR:", e, flush=True)
        status = "held" if not self.violations and not self.errors else ("VIOLATED" if self.violations else "INCONCLUSIVE")
        print(f"{self.prop} [{self.tier}] {status}: {cov['conditions_confirmed']}/{cov['conditions']} conditions confirmed, "
              f"{cov['twins_violated']}/{cov['twins']} twins reached, {paths} paths, {cov['smt_queries']} SMT queries, "
              f"{ev['wall_s']} s", flush=True)
        if self.violations:
            return 1
        if self.errors:
            return 3
        return 0
