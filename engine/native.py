"""Plain-CPython execution of a harness function (no CrossHair import, no tracing).

usage: native.py replay <harness.py> <function> <args.json>     -> NATIVE={"result": ..}
       native.py conform <harness.py>                            -> NATIVE={"observations": [...]}

replay result: "holds" (returned truthy), "violated" (returned falsy or raised), "outside"
(an assumption of the harness rejected the input).
"""
import importlib.util
import json
import os
import signal
import sys
import traceback

os.environ["VERIF_NATIVE"] = "1"
HERE = os.path.dirname(os.path.abspath(__file__))
sys.path.insert(0, os.path.dirname(HERE))
sys.setrecursionlimit(10000)


def unjson(v):
    if isinstance(v, dict) and "__bytes__" in v:
        return bytes.fromhex(v["__bytes__"])
    if isinstance(v, list):
        return [unjson(x) for x in v]
    if isinstance(v, dict):
        return {k: unjson(x) for k, x in v.items()}
    return v


def load(path):
    modname = "harness." + os.path.splitext(os.path.basename(path))[0]
    spec = importlib.util.spec_from_file_location(modname, path)
    mod = importlib.util.module_from_spec(spec)
    sys.modules[modname] = mod
    spec.loader.exec_module(mod)
    return mod


def call(fn, args):
    pos = [args[k] for k in sorted(k for k in args if k.startswith("#"))]
    kw = {k: v for k, v in args.items() if not k.startswith("#")}
    return fn(*pos, **kw)


def main():
    mode, path = sys.argv[1], sys.argv[2]
    assert "crosshair" not in sys.modules
    mod = load(path)
    from engine.hshim import IgnoreAttempt

    if mode == "replay":
        fn = getattr(mod, sys.argv[3])
        args = unjson(json.load(open(sys.argv[4])))
        if "args" in args and "function" in args:
            args = args["args"]
        signal.alarm(int(os.environ.get("VERIF_REPLAY_ALARM", "120")))
        try:
            r = call(fn, args)
            out = {"result": "holds" if r else "violated", "returned": repr(r)[:200]}
        except IgnoreAttempt:
            out = {"result": "outside"}
        except Exception as e:  # an unexpected exception is a violation of `post: _`
            out = {"result": "violated", "raised": repr(e)[:300], "tb": traceback.format_exc()[-1500:]}
        print("NATIVE=" + json.dumps(out))
    elif mode == "conform":
        obs = []
        for item in getattr(mod, "CONFORMANCE", []):
            fname, args = item[0], item[1]
            fn = getattr(mod, fname)
            try:
                r = repr(call(fn, unjson(args)) if isinstance(args, dict) else fn(*args))
            except IgnoreAttempt:
                r = "outside"
            except Exception as e:
                r = "raised " + type(e).__name__
            obs.append([fname, r])
        print("NATIVE=" + json.dumps({"observations": obs}))


if __name__ == "__main__":
    main()
