"""Conformance gate: run the harness' CONFORMANCE observations under CrossHair tracing (plug-in
applied) on *pinned symbolic* inputs - symbolic str/bytes/int proxies whose value is fixed by
solver constraints - and print the observations for comparison with the native run.

usage: chconf.py <harness.py>     -> CHCONF={"observations": [[fn, repr], ...]}
"""
import importlib.util
import json
import os
import sys

HERE = os.path.dirname(os.path.abspath(__file__))
sys.path.insert(0, os.path.dirname(HERE))
sys.setrecursionlimit(10000)


def main():
    path = sys.argv[1]
    from engine import plugin

    plugin.apply()
    import z3
    from crosshair.core import standalone_statespace, NoTracing, deep_realize
    from crosshair.tracers import ResumedTracing
    from crosshair.libimpl.builtinslib import SymbolicInt, LazyIntSymbolicStr, SymbolicBytes
    from crosshair.pure_importer import prefer_pure_python_imports
    from crosshair.util import IgnoreAttempt
    from engine.native import unjson

    import harness  # noqa: F401  (package must be in sys.modules for CrossHair option lookup)

    modname = "harness." + os.path.splitext(os.path.basename(path))[0]
    with prefer_pure_python_imports():
        spec = importlib.util.spec_from_file_location(modname, path)
        mod = importlib.util.module_from_spec(spec)
        sys.modules[modname] = mod
        spec.loader.exec_module(mod)

    counter = [0]

    def pin(space, v):
        if isinstance(v, bool):
            return v
        if isinstance(v, int):
            counter[0] += 1
            x = z3.Int(f"pin{counter[0]}")
            space.add(x == v)
            return SymbolicInt(x)
        if isinstance(v, str):
            return LazyIntSymbolicStr([pin(space, ord(c)) for c in v])
        if isinstance(v, bytes):
            return SymbolicBytes([pin(space, b) for b in v])
        if isinstance(v, list):
            return [pin(space, x) for x in v]
        if isinstance(v, tuple):
            return tuple(pin(space, x) for x in v)
        return v

    obs = []
    for item in getattr(mod, "CONFORMANCE", []):
        fname, args = item[0], item[1]
        concrete = len(item) > 2 and item[2] == "concrete"  # inputs that reach a C extension (regex) stay concrete
        fn = getattr(mod, fname)
        args = unjson(args)
        try:
            with standalone_statespace as space:
                with NoTracing():
                    pargs = list(args) if concrete else [pin(space, a) for a in args]
                try:
                    r = fn(*pargs)
                    with NoTracing():
                        r = repr(deep_realize(r))
                except IgnoreAttempt:
                    r = "outside"
                except Exception as e:
                    with NoTracing():
                        r = "raised " + type(e).__name__
        except BaseException as e:  # engine-level failure: report, the driver flags the mismatch
            r = "ENGINE " + type(e).__name__ + ": " + str(e)[:200]
        obs.append([fname, r])
    print("CHCONF=" + json.dumps({"observations": obs}))


if __name__ == "__main__":
    main()
