"""Run CrossHair (with the Fandango plug-in) on ONE harness function and print a JSON verdict.

usage: chrun.py <harness.py> <function> <per_condition_timeout_s> [per_path_timeout_s]

Output (last stdout line, prefixed CHRUN=): {"status": confirmed|refuted|unknown|pre_unsat|error,
 "message": str, "args": {..} | null, "paths": int, "solver_checks": int, "solver_s": float,
 "wall_s": float}
"""
import ast
import collections
import importlib.util
import json
import os
import sys
import time

sys.setrecursionlimit(10000)
HERE = os.path.dirname(os.path.abspath(__file__))
sys.path.insert(0, os.path.dirname(HERE))  # /verif on the path: "engine", "harness" packages


def parse_call(message: str, fn_name: str):
    """'false when calling f(a=1, b="x")' -> {"a": 1, "b": "x"} (literal_eval of each keyword)."""
    idx = message.find("when calling ")
    if idx < 0:
        return None
    expr = message[idx + len("when calling "):]
    # strip trailing " (which returns ...)" / " with ..." if present
    for cut in (" (which returns", " (which raises"):
        j = expr.rfind(cut)
        if j > 0:
            expr = expr[:j]
    try:
        node = ast.parse(expr.strip(), mode="eval").body
    except SyntaxError:
        return None
    if not isinstance(node, ast.Call):
        return None
    out = {}
    try:
        for i, a in enumerate(node.args):
            out[f"#{i}"] = ast.literal_eval(a)
        for kw in node.keywords:
            out[kw.arg] = ast.literal_eval(kw.value)
    except Exception:
        return None
    return out


def jsonable(v):
    if isinstance(v, bytes):
        return {"__bytes__": v.hex()}
    if isinstance(v, (list, tuple)):
        return [jsonable(x) for x in v]
    if isinstance(v, dict):
        return {k: jsonable(x) for k, x in v.items()}
    return v


def nested_contract_calls(path, fn_name):
    """names of contract-carrying functions reachable by plain-name calls from `fn_name` inside the harness module"""
    import ast

    tree = ast.parse(open(path).read())
    defs = {n.name: n for n in tree.body if isinstance(n, ast.FunctionDef)}
    contract = {k for k, n in defs.items() if ast.get_docstring(n) and "post:" in ast.get_docstring(n)}
    seen, todo, bad = set(), [fn_name], []
    while todo:
        cur = todo.pop()
        if cur in seen or cur not in defs:
            continue
        seen.add(cur)
        for c in ast.walk(defs[cur]):
            if isinstance(c, ast.Call) and isinstance(c.func, ast.Name) and c.func.id in defs:
                if c.func.id in contract and c.func.id != fn_name:
                    bad.append(c.func.id)
                else:
                    todo.append(c.func.id)
    return sorted(set(bad))


def main():
    path, fn_name, timeout = sys.argv[1], sys.argv[2], float(sys.argv[3])
    path_timeout = float(sys.argv[4]) if len(sys.argv) > 4 else None
    t0 = time.time()
    from engine import plugin

    plugin.apply()
    from crosshair.core import analyze_function, run_checkables
    from crosshair.options import AnalysisOptionSet, AnalysisKind
    from crosshair.statespace import MessageType
    from crosshair.util import add_to_pypath
    from crosshair.pure_importer import prefer_pure_python_imports

    import harness  # noqa: F401  (package must be in sys.modules for CrossHair option lookup)

    modname = "harness." + os.path.splitext(os.path.basename(path))[0]
    with prefer_pure_python_imports():
        spec = importlib.util.spec_from_file_location(modname, path)
        mod = importlib.util.module_from_spec(spec)
        sys.modules[modname] = mod
        spec.loader.exec_module(mod)
    fn = getattr(mod, fn_name)
    nested = nested_contract_calls(path, fn_name)
    if nested:
        # CrossHair assumes the contracts of called functions: a False from such a callee ends the path silently
        print("CHRUN=" + json.dumps({"status": "error", "message": f"{fn_name} calls contract function(s) {nested}: their failures would be assumed away",
                                     "args": None, "state": "ERROR", "traceback": "", "paths": 0, "solver_checks": 0, "solver_s": 0, "wall_s": 0}))
        return
    stats = collections.Counter()
    opts = AnalysisOptionSet(
        analysis_kind=[AnalysisKind.PEP316],
        per_condition_timeout=timeout,
        per_path_timeout=path_timeout,
        report_all=True,
        stats=stats,
    )
    checkables = analyze_function(fn, opts)
    result = {"status": "error", "message": "no checkable conditions", "args": None}
    if checkables:
        msgs = run_checkables(checkables)
        # worst message wins
        worst = None
        for m in msgs:
            if worst is None or m.state > worst.state:
                worst = m
        if worst is None:
            result = {"status": "unknown", "message": "no message", "args": None}
        else:
            st = worst.state
            if st == MessageType.CONFIRMED:
                status = "confirmed"
            elif st == MessageType.CANNOT_CONFIRM:
                status = "unknown"
            elif st == MessageType.PRE_UNSAT:
                status = "pre_unsat"
            elif st in (MessageType.POST_FAIL, MessageType.EXEC_ERR, MessageType.POST_ERR):
                status = "refuted"
            else:
                status = "error"
            args = parse_call(worst.message, fn_name) if status == "refuted" else None
            result = {
                "status": status,
                "message": worst.message[:2000],
                "args": jsonable(args) if args is not None else None,
                "state": st.name,
                "traceback": (worst.traceback or "")[-1800:] if status == "refuted" and st != MessageType.POST_FAIL else "",
            }
    result["paths"] = int(stats.get("num_paths", 0))
    result["solver_checks"] = plugin.STATS["solver_checks"]
    result["solver_s"] = round(plugin.STATS["solver_s"], 3)
    result["wall_s"] = round(time.time() - t0, 2)
    extra = getattr(mod, "PATH_LOG", None)
    if extra:
        result["path_samples"] = extra[:5]
        result["paths_reaching_assertion"] = len(extra)
    print("CHRUN=" + json.dumps(result))


if __name__ == "__main__":
    main()
