"""Fandango engine plug-in for crosshair-tool 0.0.110 (see DESIGN.md section 1, E1).

Stock CrossHair is not faithful to CPython for this code base; each adaptation below was found by a
probe that produced a wrong or missing verdict without it.  Applying the plug-in is idempotent.
"""
import sys
import time

_applied = False
STATS = {"solver_checks": 0, "solver_s": 0.0}


def apply():
    global _applied
    if _applied:
        return
    _applied = True

    import crosshair.core as core

    # (1) never replace a call by a fresh symbolic return value ("short-circuiting"): fandango
    # calls hash() inside __hash__ methods where CPython insists on a real int.
    core.consider_shortcircuit = lambda *a, **k: None

    import crosshair.core_and_libs  # noqa: F401  (registers the stock patches first)
    from crosshair.core import NoTracing, realize
    from crosshair.tracers import ResumedTracing
    from crosshair.core import CrossHairValue
    from crosshair.util import CrossHairInternal
    import crosshair.libimpl.builtinslib as bl

    # (2) hash-based set(): ParseState.__eq__ ignores children while __hash__ includes them and
    # Column.unique relies on CPython's hash-then-eq lookup.
    _orig_set = set

    def _hash_set(*a):
        with NoTracing():
            s = _orig_set()
            add = _orig_set.add
        if a:
            for x in a[0]:
                hash(x)  # traced: runs the element's __hash__ (may realise what it hashes)
                with NoTracing():
                    add(s, x)
        return s

    core._PATCH_REGISTRATIONS[set] = _hash_set

    # (3) bytes()/int()/float() on non-CrossHair objects that define the dunder in Python:
    # run the dunder traced (the stock patches call it untraced / hand the object to C).
    _stock_bytes = core._PATCH_REGISTRATIONS[bytes]
    _stock_int = core._PATCH_REGISTRATIONS[int]
    _stock_float = core._PATCH_REGISTRATIONS[float]

    def _has_py_dunder(obj, name):
        t = type(obj)
        if t in (int, float, str, bytes, bytearray, bool, list, tuple, dict, memoryview):
            return False
        if isinstance(obj, CrossHairValue):
            return False
        m = getattr(t, name, None)
        return m is not None and hasattr(m, "__code__")

    def _bytes(*a):
        with NoTracing():
            route = len(a) == 1 and _has_py_dunder(a[0], "__bytes__")
        if route:
            return bl.invoke_dunder(a[0], "__bytes__")
        return _stock_bytes(*a)

    def _int(*a, **k):
        with NoTracing():
            route = len(a) == 1 and not k and _has_py_dunder(a[0], "__int__")
        if route:
            return bl.invoke_dunder(a[0], "__int__")
        return _stock_int(*a, **k)

    def _float(*a):
        with NoTracing():
            route = len(a) == 1 and _has_py_dunder(a[0], "__float__")
        if route:
            return bl.invoke_dunder(a[0], "__float__")
        return _stock_float(*a)

    core._PATCH_REGISTRATIONS[bytes] = _bytes
    core._PATCH_REGISTRATIONS[int] = _int
    core._PATCH_REGISTRATIONS[float] = _float

    # The patching tracer resolves a call of `float` made *from inside the registered override's own
    # code* to the next lower layer (the real builtin).  The stock patches are now called by our
    # wrappers, so their code objects must resolve the same way, or `float(realize(x))` inside the
    # stock `_float` would come back to the wrapper forever.
    from crosshair import tracers

    _add = tracers.PatchingModule.add

    def add(self, new_overrides):
        _add(self, new_overrides)
        for orig, stock in ((bytes, _stock_bytes), (int, _stock_int), (float, _stock_float)):
            if new_overrides.get(orig) in (_bytes, _int, _float):
                self.nextfn[(stock.__code__, orig)] = orig

    tracers.PatchingModule.add = add

    # (4) slice-local realisation of symbolic strings: realise only the code points in view.
    def _view(self):
        cps = self._codepoints
        n = realize(len(cps))
        return "".join(chr(realize(cps[i])) for i in range(n))

    def _realize_view(self):
        try:
            return _view(self)
        except CrossHairInternal:
            # a view with SYMBOLIC slice bounds (s[a:b], a and b symbolic) reached with tracing off (realize() switches it
            # off): its length is arithmetic on symbolic ints, which needs the tracer
            if tracers.is_tracing():
                raise
            with tracers.ResumedTracing():
                return _view(self)

    bl.LazyIntSymbolicStr.__ch_realize__ = _realize_view

    # solver accounting for the evidence files
    import z3

    _check = z3.Solver.check

    def check(self, *a):
        t = time.perf_counter()
        try:
            return _check(self, *a)
        finally:
            STATS["solver_checks"] += 1
            STATS["solver_s"] += time.perf_counter() - t

    z3.Solver.check = check


ADAPTATIONS = [
    "no short-circuiting (consider_shortcircuit always declines)",
    "hash-based set() constructor (CPython hash-then-eq semantics)",
    "bytes()/int()/float() route Python-level dunders through invoke_dunder (traced)",
    "LazyIntSymbolicStr realises only the code points in view",
]
