"""E3 - grammar IR -> z3 regular expressions (non-recursive grammars, literal terminals).

Alternative -> Union, Concatenation -> Concat, Star/Plus/Option -> Star/Plus/Option,
Repetition(min,max) -> Loop(min,max) ({n,}: capped by nodes.MAX_REPETITIONS exactly as the tool does),
literal terminal -> Re(literal) (bytes literal = its Latin-1 string, as the parser compares them).
L(G1) = L(G2) is ONE query over all words (no length bound): exists w. InRe(w,R1) xor InRe(w,R2).
"""
import time

import z3


class NotRegular(Exception):
    pass


def rx_to_z3(pattern):
    """Python regex (subset: literals, ., classes/ranges, ?, *, +, {m,n}, groups, |) -> z3 regex"""
    try:
        import re._parser as sre_parse
    except ImportError:  # pragma: no cover
        import sre_parse
    if isinstance(pattern, bytes):
        pattern = pattern.decode("latin-1")

    def ch(c):
        return z3.Re(z3.StringVal(chr(c)))

    def seq(items):
        rs = [one(op, av) for op, av in items]
        if not rs:
            return z3.Re(z3.StringVal(""))
        return rs[0] if len(rs) == 1 else z3.Concat(*rs)

    def one(op, av):
        name = str(op)
        if name == "LITERAL":
            return ch(av)
        if name == "ANY":
            # `.`: any character except newline
            return z3.Union(z3.Range(chr(0), chr(9)), z3.Range(chr(11), chr(0x2FFFF)))
        if name == "IN":
            parts = []
            for o, a in av:
                if str(o) == "LITERAL":
                    parts.append(ch(a))
                elif str(o) == "RANGE":
                    parts.append(z3.Range(chr(a[0]), chr(a[1])))
                else:
                    raise NotRegular(f"regex class item {o}")
            return parts[0] if len(parts) == 1 else z3.Union(*parts)
        if name in ("MAX_REPEAT", "MIN_REPEAT"):
            lo, hi, sub = av
            r = seq(list(sub))
            if str(hi) == "MAXREPEAT":
                return z3.Star(r) if lo == 0 else z3.Plus(r) if lo == 1 else z3.Concat(z3.Loop(r, lo, lo), z3.Star(r))
            return z3.Loop(r, lo, hi)
        if name == "SUBPATTERN":
            return seq(list(av[-1]))
        if name == "BRANCH":
            rs = [seq(list(b)) for b in av[1]]
            return z3.Union(*rs)
        raise NotRegular(f"regex construct {name}")

    return seq(list(sre_parse.parse(pattern)))


def to_re(grammar, start="<start>"):
    from fandango.language.grammar.nodes.alternative import Alternative
    from fandango.language.grammar.nodes.concatenation import Concatenation
    from fandango.language.grammar.nodes.repetition import Repetition, Star, Plus, Option
    from fandango.language.grammar.nodes.non_terminal import NonTerminalNode
    from fandango.language.grammar.nodes.terminal import TerminalNode
    from fandango.language.symbols import NonTerminal
    import fandango.language.grammar.nodes as nodes_mod

    active = []

    def lit(sym):
        v = sym.value()._value
        if v is None:
            raise NotRegular("bit terminal")
        if sym.is_regex:
            return rx_to_z3(v)
        if isinstance(v, bytes):
            v = v.decode("latin-1")
        return z3.Re(z3.StringVal(v)) if len(v) else z3.Re(z3.StringVal(""))

    def conv(node):
        if isinstance(node, TerminalNode):
            return lit(node.symbol)
        if isinstance(node, NonTerminalNode):
            if node.symbol in active:
                raise NotRegular(f"recursion through {node.symbol.name()}")
            active.append(node.symbol)
            try:
                return conv(grammar.rules[node.symbol])
            finally:
                active.pop()
        if isinstance(node, Alternative):
            rs = [conv(a) for a in node.alternatives]
            return rs[0] if len(rs) == 1 else z3.Union(*rs)
        if isinstance(node, Concatenation):
            rs = [conv(a) for a in node.nodes]
            return rs[0] if len(rs) == 1 else z3.Concat(*rs)
        if isinstance(node, Star):
            return z3.Star(conv(node.node))
        if isinstance(node, Plus):
            return z3.Plus(conv(node.node))
        if isinstance(node, Option):
            return z3.Option(conv(node.node))
        if isinstance(node, Repetition):
            hi = node.internal_max
            if hi is None:
                hi = nodes_mod.MAX_REPETITIONS
            return z3.Loop(conv(node.node), node.min, hi)
        raise NotRegular(type(node).__name__)

    return conv(grammar.rules[NonTerminal(start)])


class Queries:
    def __init__(self):
        self.n = 0
        self.solver_s = 0.0

    def distinguishing_word(self, r1, r2, timeout_s=60):
        """('unsat', None) if the languages are equal, ('sat', word) otherwise"""
        w = z3.String("w")
        s = z3.Solver()
        s.set("timeout", int(timeout_s * 1000))
        s.add(z3.Xor(z3.InRe(w, r1), z3.InRe(w, r2)))
        t0 = time.time()
        r = s.check()
        self.solver_s += time.time() - t0
        self.n += 1
        if str(r) == "sat":
            return "sat", s.model()[w].as_string()
        return str(r), None

    def member(self, r, word):
        s = z3.Solver()
        s.add(z3.InRe(z3.StringVal(word), r))
        t0 = time.time()
        res = s.check()
        self.solver_s += time.time() - t0
        self.n += 1
        return str(res) == "sat"

    def sample(self, r, k=3, timeout_s=20):
        """up to k distinct words of the language"""
        out = []
        w = z3.String("w")
        s = z3.Solver()
        s.set("timeout", int(timeout_s * 1000))
        s.add(z3.InRe(w, r))
        for _ in range(k):
            t0 = time.time()
            res = s.check()
            self.solver_s += time.time() - t0
            self.n += 1
            if str(res) != "sat":
                break
            v = s.model()[w].as_string()
            out.append(v)
            s.add(w != z3.StringVal(v))
        return out
