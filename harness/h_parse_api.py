"""C04 (API level): Grammar.parse_forest / Parser cache and bytes inputs, finite alphabets.

(1) api_sound: a symbolic word over a finite alphabet (hashing the cache key realises it) parsed through the
    real Grammar.parse_forest in complete mode AFTER a symbolic prior request on the same grammar object
    (none / prefix-mode parse of the same word / first-tree request / complete parse of another word):
    every yielded tree is a derivation, serialises to the word, has no helper symbols - and the set of
    trees equals what a grammar object without history yields (C12 overlap).
(2) bytes_sound: a symbolic BYTES word parsed against a grammar with non-ASCII str literals and bytes
    literals: every yielded tree serialises (to_bytes) exactly to the input and is a derivation.
"""
import os

from harness.common import *  # noqa

SPEC = os.environ.get("H_SPEC", "prefix")
N = int(os.environ.get("H_LEN", "3"))
ALPHAS = {"prefix": "xyz", "list": "ab0,;", "amb": "xy", "open": "ab", "uni": "\xe9€x"}
ALPHA = ALPHAS.get(SPEC, "ab")
G = load(SPEC)
nodes_mod.MAX_REPETITIONS = 20
G_API = load(SPEC)
OTHER = {"prefix": "xz", "list": "ab", "amb": "y", "open": "aab", "uni": "\xe9"}.get(SPEC, "a")


def api_sound(word: str, prior: int) -> bool:
    """
    pre: len(word) <= N and all(c in ALPHA for c in word) and 0 <= prior <= 4
    post: _
    """
    exclude_known("api_sound", word=word, prior=prior, SPEC=SPEC)
    g = G_API  # a long-lived grammar object; its parser cache is emptied so that the history is exactly `prior`
    g._parser._cache.clear()
    if prior == 1:
        for _ in g.parse_forest(word, mode=ParsingMode.INCOMPLETE):
            pass
    elif prior == 2:
        g.parse(word)
    elif prior == 3:
        for _ in g.parse_forest(OTHER):
            pass
    elif prior == 4:
        g.parse(word, mode=ParsingMode.INCOMPLETE)
        g.parse(word)
    ts = list(g.parse_forest(word))
    for t in ts:
        if not (t.symbol.is_non_terminal and t.symbol.name() == "<start>"):
            return False
        if not valid(g, t) or not no_helper_symbols(t):
            return False
        if text_of(t) != word or t.to_string() != word:
            return False
    fresh = iter_forest(g, word)
    if sorted(repr(t) for t in ts) != sorted(repr(t) for t in fresh):
        return False
    return (len(ts) > 0) == member(g, word)


def reach_api(word: str, prior: int) -> bool:
    """
    pre: len(word) <= N and all(c in ALPHA for c in word) and 0 <= prior <= 4
    post: _
    """
    g = G_API
    g._parser._cache.clear()
    if prior == 1:
        for _ in g.parse_forest(word, mode=ParsingMode.INCOMPLETE):
            pass
    ts = list(g.parse_forest(word))
    return not (prior == 1 and len(ts) > 0)


# ---- bytes input -----------------------------------------------------------------------------------
BSPEC = '<start> ::= <w>+ <t>?\n<w> ::= "\\xe9" | "x" | b"\\xc3"\n<t> ::= b"\\xa9\\x00" | "y"\n'
GBYTES = load(BSPEC)
BALPHA = (0xE9, 0x78, 0xC3, 0xA9, 0x00, 0x79)
NB = int(os.environ.get("H_BLEN", "2"))


def bytes_sound(word: bytes) -> bool:
    """
    pre: len(word) <= NB and all(b in BALPHA for b in word)
    post: _
    """
    exclude_known("bytes_sound", word=word)
    ts = iter_forest(GBYTES, word)
    for t in ts:
        if t.to_bytes() != word:
            return False
        if not no_helper_symbols(t):
            return False
        if not (t.symbol.is_non_terminal and t.symbol.name() == "<start>"):
            return False
    return True


def reach_bytes(word: bytes) -> bool:
    """
    pre: len(word) <= NB and all(b in BALPHA for b in word)
    post: _
    """
    ts = iter_forest(GBYTES, word)
    return not (len(ts) > 0 and len(word) == NB and word[0] == 0xE9)


# ---- Fandango.parse: the constraint filter incl. computed repetition bounds -------------------------
from fandango import Fandango

RSPEC = '<start> ::= <hdr> <x>{int(<n>)} ";"\n<hdr> ::= <n> <t> | <t> <n>\n<n> ::= "1" | "2"\n<t> ::= "1" | "2"\n<x> ::= "x"\n'
F_REP = Fandango(RSPEC, use_stdlib=False, use_cache=False)
RALPHA = "12x;"
NR = int(os.environ.get("H_RLEN", "4"))


def concretise(word, alpha):
    out = ""
    for c in word:
        for a in alpha:
            if c == a:
                out += a
                break
        else:
            raise IgnoreAttempt("outside the alphabet")
    return out


def api_repetition(word: str) -> bool:
    """
    pre: 1 <= len(word) <= NR and all(c in RALPHA for c in word)
    post: _
    """
    exclude_known("api_repetition", word=word)
    w = concretise(word, RALPHA)
    F_REP.grammar._parser._cache.clear()
    for c in F_REP.constraints:
        if hasattr(c, "cache"):
            c.cache.clear()
    try:
        ts = list(F_REP.parse(w))
    except Exception:
        ts = []
    for t in ts:
        if t.to_string() != w:
            return False
        ns = [c for c in t.children[0].children if c.symbol.is_non_terminal and c.symbol.name() == "<n>"]
        xs = [c for c in t.children if c.symbol.is_non_terminal and c.symbol.name() == "<x>"]
        if len(ns) != 1 or len(xs) != int(text_of(ns[0])):
            return False  # a tree that violates the computed repetition bound passed the API's constraint filter
    return True


def reach_rep(word: str) -> bool:
    """
    pre: 1 <= len(word) <= NR and all(c in RALPHA for c in word)
    post: _
    """
    w = concretise(word, RALPHA)
    try:
        ts = list(F_REP.parse(w))
    except Exception:
        ts = []
    return len(ts) == 0


def obs(word, prior):
    g = CONF_G
    ts = list(g.parse_forest(word))
    return [repr(t) for t in ts]


def obs_bytes(word):
    return [(repr(t), t.to_bytes()) for t in iter_forest(GBYTES, word)]


CONF_G = load(SPEC) if os.environ.get("VERIF_CONFORM") else None
CONFORMANCE = [("obs_bytes", [b"\xe9x"]), ("obs_bytes", [b"\xc3\xa9\x00"]), ("obs_bytes", [b"xy"]), ("obs", ["xyz", 0]), ("obs", ["xz", 0])]
