"""C11 (look-alike trees): on an AMBIGUOUS grammar two different derivation trees spell the same string; what one long-lived
Evaluator (and its constraint objects) reports for the second tree must equal what brand-new objects report - no coincidence of
serialised values (or hashes) between two trees may transfer a verdict.

Symbolic: for two consecutive evaluations, which derivation (<dec> or <hex>) and which digits (1-2 over {1,2}).
Constraint: int(<dec>) >= 20 - holds vacuously for a <hex> tree, depends on the digits for a <dec> tree.  A second spec object read
from the same text provides the fresh objects (caches emptied before each use).
"""
import os

from harness.common import *  # noqa
from fandango.evolution.evaluation import Evaluator
from fandango.evolution import GeneratorWithReturn

SPEC = '<start> ::= <dec> | <hex>\n<dec> ::= <d> | <d> <d>\n<hex> ::= <d> | <d> <d>\n<d> ::= "1" | "2"\nwhere int(<dec>) >= 20\n'
G, CS = load_with_constraints(SPEC)
G2, CS2 = load_with_constraints(SPEC)
NT = NonTerminal


def mk(kind, digits):
    def d(c):
        return DerivationTree(NT("<d>"), [DerivationTree(Terminal(c))])
    return DerivationTree(NT("<start>"), [DerivationTree(NT("<dec>" if kind == 0 else "<hex>"), [d(c) for c in digits])])


def clear(cs):
    for c in cs:
        if hasattr(c, "cache"):
            c.cache.clear()


def observe(ev, cs, t):
    ys, ret = GeneratorWithReturn(ev.evaluate_individual(t)).collect()
    fit = cs[0].fitness(t)
    return (ret[0], fit.success, fit.solved, fit.total, sorted(repr(ft.tree) for ft in ret[1]))


def pick(k, s):
    for a in ("1", "2", "11", "12", "21", "22"):
        if s == a:
            return a
    raise IgnoreAttempt("outside the alphabet")


def second_equals_fresh(k1: int, s1: str, k2: int, s2: str) -> bool:
    """
    pre: 0 <= k1 <= 1 and 0 <= k2 <= 1 and 1 <= len(s1) <= 2 and 1 <= len(s2) <= 2
    post: _
    """
    exclude_known("second_equals_fresh", k1=k1, s1=s1, k2=k2, s2=s2)
    a, b = pick(k1, s1), pick(k2, s2)
    k1, k2 = (0 if k1 == 0 else 1), (0 if k2 == 0 else 1)
    clear(CS)
    ev = Evaluator(G, list(CS), 1.0, 0, 0.0)
    first = observe(ev, CS, mk(k1, a))
    clear(CS2)
    if first != observe(Evaluator(G2, list(CS2), 1.0, 0, 0.0), CS2, mk(k1, a)):
        return False
    got = observe(ev, CS, mk(k2, b))
    clear(CS2)
    want = observe(Evaluator(G2, list(CS2), 1.0, 0, 0.0), CS2, mk(k2, b))
    return got == want


def reach(k1: int, s1: str, k2: int, s2: str) -> bool:
    """
    pre: 0 <= k1 <= 1 and 0 <= k2 <= 1 and 1 <= len(s1) <= 2 and 1 <= len(s2) <= 2
    post: _
    """
    a, b = pick(k1, s1), pick(k2, s2)
    k1, k2 = (0 if k1 == 0 else 1), (0 if k2 == 0 else 1)
    clear(CS)
    ev = Evaluator(G, list(CS), 1.0, 0, 0.0)
    first = observe(ev, CS, mk(k1, a))
    got = observe(ev, CS, mk(k2, b))
    return not (a == b and k1 != k2 and first[0] != got[0])


def obs(k1, s1, k2, s2):
    clear(CS)
    ev = Evaluator(G, list(CS), 1.0, 0, 0.0)
    return observe(ev, CS, mk(k1, s1)), observe(ev, CS, mk(k2, s2))


CONFORMANCE = [("obs", [1, "12", 0, "12"]), ("obs", [0, "12", 1, "12"]), ("obs", [0, "21", 0, "21"]), ("obs", [1, "2", 0, "22"])]
