"""C01 (b) / C05 generator direction: Grammar.fuzz on whole grammars with every random draw symbolic.

Symbolic: `choices` - the sequence of values returned by random.randint / random.choice (an
out-of-range value is an assumption violation -> path ignored), `max_nodes` - index into the list of node budgets H_BUDGETS.
random.random() returns 0.5 (> every Gmutator probability 0.0: the out-of-grammar mutations are off,
as in every default configuration).  nodes.MAX_REPETITIONS is lowered to 2 to bound the path count.
Oracle: independent derivation checker; round trip through the real parser.
"""
import os
from typing import List

from harness.common import *  # noqa
import fandango.language.grammar.nodes.alternative as A
import fandango.language.grammar.nodes.repetition as R
import fandango.language.grammar.nodes.terminal as TT

SPEC = os.environ.get("H_SPEC", "list")
BUDGETS = [int(x) for x in os.environ.get("H_BUDGETS", "0,2,5,12").split(",")]
NB = len(BUDGETS)
RSIZE = int(os.environ.get("H_RSIZE", "5"))
NCH = int(os.environ.get("H_CHOICES", "8"))
START = os.environ.get("H_START", "<start>")
G = load(SPEC)
nodes_mod.MAX_REPETITIONS = 2


class Rnd:
    def __init__(self, choices):
        self.c = choices
        self.i = 0

    def nxt(self):
        if self.i >= len(self.c):
            raise IgnoreAttempt("out of choices")
        v = self.c[self.i]
        self.i += 1
        return v

    def randint(self, a, b):
        v = self.nxt()
        if not (a <= v <= b):
            raise IgnoreAttempt("range")
        return v

    def choice(self, seq):
        v = self.nxt()
        if not (0 <= v < len(seq)):
            raise IgnoreAttempt("range")
        return seq[v]

    def random(self):
        return 0.5


# regex terminals are instantiated by the third-party generator exrex (its own use of `random` cannot be
# steered): it is replaced by a stub that picks, with a symbolic draw, among ALL strings exrex itself
# enumerates for the pattern (computed natively at import; finite patterns only)
import exrex as _real_exrex

REGEX_INSTANCES = {}


def _collect_patterns(node):
    if isinstance(node, TerminalNode) and node.symbol.is_regex:
        v = node.symbol.value()
        pat = v.to_string("latin-1") if isinstance(v._value, bytes) else str(v)
        REGEX_INSTANCES[pat] = sorted(set(_real_exrex.generate(pat)))[:12]
    for c in node.children():
        _collect_patterns(c)


for _r in G.rules.values():
    _collect_patterns(_r)


class StubExrex:
    def __init__(self, rnd):
        self.rnd = rnd

    def getone(self, pattern):
        return self.rnd.choice(REGEX_INSTANCES[pattern])


def fuzz_with(choices, max_nodes, start=START):
    # case split on the budget: the engine explores one concrete budget per path (mixing a symbolic
    # int into the float arithmetic of distance_to_completion makes every solver query non-linear)
    for i in range(NB):
        if max_nodes == i:
            max_nodes = BUDGETS[i]
            break
    r = Rnd(choices)
    saved = (A.random, R.random, TT.random, TT.exrex)
    A.random = R.random = TT.random = r
    TT.exrex = StubExrex(r)
    try:
        t = G.fuzz(start, max_nodes)
    finally:
        A.random, R.random, TT.random, TT.exrex = saved
    if r.i != len(choices):
        raise IgnoreAttempt("unused choices")  # canonical form: one path per draw sequence
    return t


def derivation(choices: List[int], max_nodes: int) -> bool:
    """
    pre: len(choices) <= NCH and 0 <= max_nodes < NB
    post: _
    """
    exclude_known("derivation", choices=choices, max_nodes=max_nodes, SPEC=SPEC)
    t = fuzz_with(choices, max_nodes)
    if not (t.symbol.is_non_terminal and t.symbol.name() == START):
        return False
    if not valid(G, t) or not no_helper_symbols(t):
        return False
    # bookkeeping consistent (C10 overlap): sizes and parent links
    for n in t.flatten():
        for c in n.children:
            if c.parent is not n:
                return False
    return t.size() == len(t.flatten())


def roundtrip(choices: List[int], max_nodes: int) -> bool:
    """
    pre: len(choices) <= NCH and 0 <= max_nodes < NB
    post: _
    """
    exclude_known("roundtrip", choices=choices, max_nodes=max_nodes, SPEC=SPEC)
    t = fuzz_with(choices, max_nodes)
    w = text_of(t)
    if t.to_string() != w:
        return False
    back = iter_forest(G, w, START)
    if not back:
        return False
    return any(text_of(b) == w and valid(G, b) for b in back) and member(G, w, START)


def roundtrip_bytes(choices: List[int], max_nodes: int) -> bool:
    """
    pre: len(choices) <= NCH and 0 <= max_nodes < NB
    post: _
    """
    # the same round trip for grammars that serialise to bytes (bytes regex terminals instantiated >= 0x80)
    exclude_known("roundtrip_bytes", choices=choices, max_nodes=max_nodes, SPEC=SPEC)
    t = fuzz_with(choices, max_nodes)
    if not valid(G, t):
        return False
    w = t.to_bytes()
    back = iter_forest(G, w, START)
    return any(b.to_bytes() == w for b in back)  # leaves of a parse of bytes input are bytes slices: compare serialisations


def reach(choices: List[int], max_nodes: int) -> bool:
    """
    pre: len(choices) <= NCH and 0 <= max_nodes < NB
    post: _
    """
    # twin: a tree with at least RSIZE nodes is generated
    t = fuzz_with(choices, max_nodes)
    return t.size() < RSIZE


def obs(choices, max_nodes):
    t = fuzz_with(choices, max_nodes)
    return repr(t), valid(G, t)


def _record(seed, max_nodes):
    import random as _r

    rr = _r.Random(seed)
    seq = []

    class Rec:
        def randint(self, a, b):
            v = rr.randint(a, b)
            seq.append(v)
            return v

        def choice(self, xs):
            v = rr.randrange(len(xs))
            seq.append(v)
            return xs[v]

        def random(self):
            return 0.5

    saved = (A.random, R.random, TT.random, TT.exrex)
    rec = Rec()
    A.random = R.random = TT.random = rec
    TT.exrex = StubExrex(rec)
    try:
        G.fuzz(START, max_nodes)
    finally:
        A.random, R.random, TT.random, TT.exrex = saved
    return seq


CONFORMANCE = []
if os.environ.get("VERIF_CONFORM"):
    for seed in range(6):
        mn = seed % NB
        CONFORMANCE.append(("obs", [_record(seed, BUDGETS[mn]), mn]))
