"""Native replay for C15: argv[1] = JSON {"spec": text, "word": w}.  Reads the spec, prints it, reads the
printed text back and parses `word` with both grammars; exit 1 if membership differs or the printed text
cannot be read."""
import json
import sys

from engine.hshim import *  # noqa
from fandango.language.parse.parse import parse


def accepts(g, w):
    try:
        return g.parse(w) is not None
    except Exception:
        return False


if __name__ == "__main__":
    req = json.loads(sys.argv[1])
    g1, _ = parse(req["spec"], use_stdlib=False, use_cache=False)
    printed = repr(g1) + "\n"
    try:
        g2, _ = parse(printed, use_stdlib=False, use_cache=False)
    except Exception as e:
        print("printed spec does not read back:", printed, repr(e)[:200])
        sys.exit(1)
    a, b = accepts(g1, req["word"]), accepts(g2, req["word"])
    print(json.dumps({"printed": printed, "word": req["word"], "original_accepts": a, "reread_accepts": b}))
    sys.exit(1 if a != b else 0)
