"""C08 program corpus (pure data; no Fandango import).

EXPRS: Python expressions as they may appear inside a constraint.  Free names: A_, B_ (ints), S_ (str),
L_ (the list [A_, B_, 3]); `<x>` (one or two leaves) and `<y>` (one leaf) are symbol references.
Every expression is used as `where rec_(E)`: the harness-owned `rec_` records the value Fandango's evaluation
machinery computed, so values (not only verdicts) are compared with CPython's own evaluation of the same text.
FORMULAS: boolean expressions used unwrapped (`where F`), so that the formula level (and/or/not/comparison
splitting done by the constraint translator) is on the path.  They cannot raise.
STMTS: helper-code programs; each defines `prog(a, b, s)`.
"""

OPS = ["+", "-", "*", "//", "%", "**", "<<", ">>", "&", "|", "^"]

EXPRS = []
# precedence / associativity grid: every ordered pair of binary operators
for _o1 in OPS:
    for _o2 in OPS:
        EXPRS.append(f"A_ {_o1} B_ {_o2} 2")
EXPRS += [
    # unary operators against binary ones
    "-A_ ** 2", "-A_ * B_", "~A_ + 1", "+A_ - -B_", "not A_ == B_", "not not A_", "-(A_ + B_)", "~-A_", "2 ** -A_", "- - A_",
    "(A_ + B_) * 2", "A_ - (B_ - 2)", "A_ / 2", "A_ / 2 * B_", "A_ // 2 / 2",
    # comparison chains and operators
    "A_ < B_ < 3", "A_ < B_ == (A_ < B_)", "A_ == B_ != 2", "A_ in L_", "A_ not in L_", "A_ is None", "A_ is not None",
    "1 < A_ <= B_ != 3", "A_ >= B_ > -2", "(A_ < B_) < 3", "A_ < (B_ < 3)", "A_ != B_", "A_ <= B_",
    # boolean operators (value-returning, short-circuit)
    "A_ and B_ or 2", "A_ or B_ and 2", "not A_ or B_", "not (A_ or B_)", "A_ and not B_", "A_ or B_ or 3", "A_ and B_ and 3",
    "(A_ or B_) and 2", "A_ or (B_ and 2)",
    # conditional expressions
    "A_ if B_ else 2 if A_ else 3", "(A_ if B_ else 2) + 1", "A_ if B_ else 2 + 1", "A_ if B_ > 0 else -A_", "(1 if A_ else 2) if B_ else 3",
    # lambdas
    "(lambda q, r=2: q - r)(A_)", "(lambda *q, k=1: (q, k))(A_, B_)", "list(map(lambda c: c + A_, [1, 2]))", "(lambda: A_)()",
    "(lambda q, /, r, *, k=3, **kw: (q, r, k, kw))(A_, B_, z=1)", "(lambda q: lambda r: q - r)(A_)(B_)", "sorted(L_, key=lambda v: -v)",
    "(lambda q=A_: q + 1)()",
    # comprehensions
    "[i * A_ for i in range(3) if i != B_]", "{i: j for i in range(2) for j in range(A_)}", "sorted({i % 2 for i in [A_, B_, 3]})",
    "sum(i for i in range(4) if i > A_)", "[[i + j for j in range(2)] for i in range(A_)]", "[i for i in range(3) if i if i != A_]",
    "[(i, j) for i in range(2) for j in range(i + 1) if j != A_]", "list(i + A_ for i in L_)", "{i: i * B_ for i in L_ if i}",
    "[i for i, j in [(1, A_), (2, B_)] if j > 0]", "any(i == A_ for i in range(3))", "all(i != B_ for i in L_)",
    # subscripts and slices
    "L_[0]", "L_[-1]", "L_[1:]", "L_[::-1]", "L_[A_:B_]", "L_[::2]", "'abc'[A_]", "{1: 2}[A_]", "L_[0:2][1]", "(1, 2, 3)[A_:]",
    "L_[:B_]", "L_[A_::2]", "L_[:]", "L_[-2:]", "'abcd'[A_:B_:2]", "L_[1:2:1]", "{(1, 2): 3}[1, 2]", "L_[:-1]",
    # calls
    "divmod(A_, B_)", "max(A_, B_, key=lambda v: -v)", "dict(a=A_, **{'b': B_})", "(lambda *a, **k: (a, k))(*[A_, B_], c=3, **{'d': 4})",
    "sorted([A_, B_, 2], reverse=True)", "'{}-{}'.format(A_, B_)", "int(str(<x>)) + A_", "str(<x>).upper()", "str(<x>) + str(<y>)",
    "len(str(<x>)) * A_", "int(<x>) - int(<y>)", "int(<x>) // int(<y>)", "str(<y>) * B_", "min(*L_)", "pow(A_, 2, 5)", "abs(A_ - B_)",
    "(lambda *a, **k: (a, k))(A_, *[B_], *[1], k=2)", "print is print", "isinstance(A_, int)", "str(<x>)[0] == str(<y>)",
    "int(<x>) ** 2 % 7 < int(<y>) << 1", "str(<x>).startswith(str(<y>))", "[str(<x>), str(<y>)][A_]",
    # literals
    "0x10 + A_", "0b11", "0o17", "1_000", "1e3", "2.5", "1j", "'a' 'b'", "'it''s'", "b'ab'[0]", "r'\\n'", "'''tri'''", "'\\x41\\u00e9\\n'",
    "True", "None", "...", "()", "[]", "{}", "(A_,)", "[A_, *L_]", "{**{'a': 1}, 'b': A_}", "sorted({*L_})", "(A_, B_)[::-1]", "10 ** 2", "0xff & A_",
    "'\"'", "\"'\"", "b'\\x00\\xff'", "1.5e-3", "0.1 + 0.2", "-0.0", "1_0.0_1", "'\\\\'", "'a\\tb'", "rb'\\x'", "u'x'",
    "[1, 2, 3,]", "(1,)", "sorted({1, 2,})", "{'a': 1,}", "((A_))", "[[], [[]]]",
    # f-strings
    "f'{A_}'", "f'{A_!r}'", "f'{A_:>4}'", "f'{A_:{3}}'", "f'{A_=}'", "f'{3!r}'", "f'a{{b}}{A_}'", "f'{A_ + 1}{B_}'",
    "f\"{'x' if A_ else 'y'}\"", "f'{S_!s}'", "f'{A_:04d}'", "f'{str(<x>)}-{<y>}'", "f''", "f'{A_}' 'tail' f'{B_}'", "f'{A_!a}'",
    "f'{A_:+}'", "f'{L_[0]}'", "f'{S_:>{3}}'", "f'{{}}'", "f'{A_ * 2:3d}|'", "f'{(lambda q: q + 1)(A_)}'", "f'{S_.upper()}'",
    # attributes / methods
    "S_.upper().lower()", "'a,b'.split(',')[A_]", "(A_).bit_length()", "S_.join(['x', 'y'])", "S_ + S_ * 2", "S_[::-1]", "S_ == 'a'",
    "S_ in 'ab'", "'%s-%d' % (S_, A_)", "S_.replace('a', 'b')", "len(S_) + A_",
    # starred
    "[*range(A_)]", "(*L_, 4)", "[*L_, *L_]",
    # f-string literal parts: blanks, escapes, quotes
    "f'a b {A_} c'", "f'x\\n{A_}'", "f'{A_} - {B_}'", "f'it is {A_}!'", "f'{A_}\\t|'", "f'100% {S_}'", "f'a.b,c;{A_}'", "f'  {A_}  '",
    # symbol references inside nested scopes (lambda bodies, comprehension elements and conditions)
    "any(c == str(<x>) for c in '27')", "[c for c in '27' if c == str(<x>)]", "list(map(lambda c: c == str(<y>), '27'))",
    "[[d + str(<y>) for d in 'ab'] for c in 'a']", "{c: str(<x>) for c in 'ab'}", "sum(int(<y>) for c in 'ab' if c != str(<y>))",
    "sorted('72', key=lambda c: c == str(<y>))", "[str(<x>) for _ in range(A_)]",
]

FORMULAS = [
    "A_ < B_", "A_ < B_ and B_ < 3", "A_ < B_ or B_ < 3", "not A_ < B_", "not (A_ < B_ or B_ < 3)", "A_ == B_", "A_ != B_",
    "str(<x>) == '2'", "A_ < B_ < 3", "(A_ < B_) == (B_ < 3)", "A_ in [1, 2]", "A_ < B_ and (B_ < 3 or A_ == 0)",
    "not (A_ < B_ and B_ < 3)", "A_ < B_ or B_ < 3 and A_ == 0", "(A_ < B_ or B_ < 3) and A_ == 0", "not A_ == B_",
    "not (not A_ < B_)", "A_ >= B_", "A_ <= B_ <= 2", "str(<x>) != str(<y>) and A_ == A_", "A_ > B_ or not B_ > 1",
    "A_ == 1 or A_ == 2 or A_ == 3", "A_ != 1 and A_ != 2 and B_ != 1", "not (A_ == 1 or B_ == 1) or A_ == B_",
]

STMTS = [
    # 0: every parameter kind
    '''
def f(p, /, q, r=3, *args, k, m=5, **kw):
    return (p, q, r, args, k, m, kw)

def prog(a, b, s):
    return [f(a, b, k=1), f(a, q=b, k=s), f(a, b, 7, 8, 9, k=1, m=2, z=s), f(a, b, r=a, k=b)]
''',
    # 1: defaults are evaluated once, at definition time; mutable default
    '''
base = 10
def f(x, acc=[], off=base):
    acc.append(x + off)
    return list(acc)
base = 20

def prog(a, b, s):
    f.__defaults__[0].clear()
    return (f(a), f(b), f(a, [1]), f(b, off=0))
''',
    # 2: keyword-only without default after *, annotations
    '''
def f(a: int, b: "str" = 1, *, c, d: int = 4) -> int:
    return (a, b, c, d)

def prog(a, b, s):
    try:
        r = f(a, c=b)
    except TypeError:
        r = "T"
    return (r, f(a, s, d=b, c=0), f.__annotations__ == {"a": int, "b": "str", "d": int, "return": int})
''',
    # 3: closures, nonlocal, global
    '''
counter = 0
def bump(n):
    global counter
    counter += n
    return counter

def make(n):
    total = n
    def add(k):
        nonlocal total
        total += k
        return total
    return add

def prog(a, b, s):
    global counter
    counter = 0
    ad = make(a)
    return (ad(b), ad(b), bump(a), bump(b), counter)
''',
    # 4: if / elif / else chains
    '''
def prog(a, b, s):
    if a < 0:
        r = "neg"
    elif a == 0:
        if b:
            r = "zero-b"
        else:
            r = "zero"
    elif a == 1: r = "one"
    else:
        r = "many"
    if not b: r += "!"
    return r
''',
    # 5: while with break / continue / else
    '''
def prog(a, b, s):
    out = []
    i = 0
    while i < 4:
        i += 1
        if i == a:
            continue
        if i == b:
            break
        out.append(i)
    else:
        out.append("done")
    return out
''',
    # 6: for / else, nested loops, tuple targets
    '''
def prog(a, b, s):
    out = []
    for i, (j, k) in enumerate([(a, b), (b, a), (1, 2)]):
        for m in range(2):
            if j == m:
                break
        else:
            out.append((i, j, k))
            continue
        out.append(-i)
    else:
        out.append("end")
    return out
''',
    # 7: try / except / else / finally
    '''
def prog(a, b, s):
    log = []
    try:
        log.append(a // b)
    except ZeroDivisionError as e:
        log.append(type(e).__name__)
    else:
        log.append("else")
    finally:
        log.append("fin")
    try:
        try:
            [1, 2][a]
        finally:
            log.append("inner")
    except (IndexError, KeyError):
        log.append("idx")
    return log
''',
    # 8: raise ... from, custom exception, finally overriding return
    '''
class MyErr(ValueError):
    pass

def g(a):
    try:
        if a > 0:
            raise MyErr("pos") from KeyError("k")
        return "ret"
    finally:
        if a == 2:
            return "override"

def prog(a, b, s):
    try:
        r = g(a)
    except ValueError as e:
        r = (type(e).__name__, e.args, type(e.__cause__).__name__)
    return r
''',
    # 9: with statement, context-manager protocol
    '''
class CM:
    def __init__(self, log, swallow):
        self.log = log
        self.swallow = swallow
    def __enter__(self):
        self.log.append("in")
        return self
    def __exit__(self, tp, val, tb):
        self.log.append(tp.__name__ if tp else None)
        return self.swallow

def prog(a, b, s):
    log = []
    with CM(log, True) as c, CM(log, False):
        if a > 0:
            raise KeyError(a)
        log.append("body")
    try:
        with CM(log, b > 0):
            raise ValueError(b)
    except ValueError:
        log.append("escaped")
    return log
''',
    # 10: classes - inheritance, super, property, staticmethod, classmethod, dunder
    '''
class Base:
    kind = "base"
    def __init__(self, v):
        self.v = v
    def val(self):
        return self.v
    @property
    def twice(self):
        return self.v * 2
    @staticmethod
    def st(x):
        return x + 1
    @classmethod
    def mk(cls, x):
        return cls(x)
    def __eq__(self, other):
        return self.v == other.v
    def __add__(self, other):
        return type(self)(self.v + other.v)

class Der(Base):
    kind = "der"
    def val(self):
        return super().val() + 100

def prog(a, b, s):
    x, y = Base(a), Der.mk(b)
    return (x.val(), y.val(), x.twice, Base.st(a), y.kind, x == y, (x + y).v, (y + x).val(), isinstance(y, Base))
''',
    # 11: augmented assignments
    '''
def prog(a, b, s):
    x = a
    x += b
    x -= 1
    x *= 2
    y = [x]
    y += [b]
    y *= 2
    z = 7
    z //= 2
    z %= 3
    z **= 2
    z <<= 1
    z >>= 1
    z |= 8
    z &= 12
    z ^= a
    d = {"k": 1}
    d["k"] += a
    y[0] -= b
    return (x, y, z, d)
''',
    # 12: unpacking, starred targets, chained assignment, swap
    '''
def prog(a, b, s):
    p, *q = [a, b, 3]
    *r, t = (a, b, 3)
    u = v = [a]
    v.append(b)
    a, b = b, a
    (m, n), o = (a, b), 3
    [w, [x]] = [1, [2]]
    return (p, q, r, t, u, a, b, m, n, o, w, x)
''',
    # 13: del, assert, pass, bare return
    '''
def h(x):
    if x:
        return
    pass

def prog(a, b, s):
    d = {1: a, 2: b}
    del d[1]
    l = [a, b, 3]
    del l[0], l[-1]
    try:
        assert a > 0, "msg" + s
        r = "ok"
    except AssertionError as e:
        r = e.args
    try:
        assert b
    except AssertionError as e:
        r = (r, e.args)
    return (d, l, r, h(a), h(0))
''',
    # 14: imports
    '''
import math
from math import gcd as g, floor
import os.path as p
from functools import reduce

def prog(a, b, s):
    return (g(a, b), math.factorial(abs(a)), floor(2.5) + b, p.join("x", s), reduce(lambda x, y: x * y, [a, b, 2], 1))
''',
    # 15: match statement
    '''
def prog(a, b, s):
    out = []
    for v in (a, [a, b], {"k": b}, s, (a, b, 3), None):
        match v:
            case 0 | 1:
                out.append("small")
            case int(n) if n < 0:
                out.append(("neg", n))
            case [x, y]:
                out.append(("pair", x, y))
            case [x, *rest]:
                out.append(("seq", x, rest))
            case {"k": k}:
                out.append(("map", k))
            case str() as t:
                out.append(("str", t))
            case None:
                out.append("none")
            case _:
                out.append("other")
    return out
''',
    # 16: generators, yield from, generator expressions
    '''
def gen(n):
    for i in range(n):
        got = yield i
        if got:
            yield got * 10
    return "end"

def outer(n):
    r = yield from gen(n)
    yield r

def prog(a, b, s):
    g = gen(3)
    first = next(g)
    sent = g.send(a)
    return (first, sent, list(g), list(outer(b)), list(x + a for x in range(3)))
''',
    # 17: lambdas, default capture, nested comprehension scopes
    '''
sq = lambda x, k=2: x ** k
fs = [lambda i=i: i + 1 for i in range(3)]
late = [lambda: i for i in range(3)]

def prog(a, b, s):
    i = 100
    return (sq(a), sq(a, 3), [f() for f in fs], [f() for f in late], [[i * j for j in range(a)] for i in range(b)], i)
''',
    # 18: f-strings and string literals in statements
    '''
def prog(a, b, s):
    w = 5
    return (f"{a:>{w}}|{b!r}|{s!r:^7}|{a + b = }", f"""multi
line {a}""", "con" "cat" f"{s}", f"{{{a}}}", f"{'nested' + s}", f"{a:+03d}", f"{s:{'<'}{4}}")
''',
    # 19: semicolons, line continuation, comments, annotated assignment
    '''
x: int = 3; y = 4  # comment ; not code
z: int
total = x + \\
    y

def prog(a, b, s):
    r = (a +
         b)  # implicit continuation
    return (x, y, total, r, "z" in globals())
''',
    # 20: decorators (stacked, with arguments)
    '''
def twice(f):
    def w(*a, **k):
        return f(*a, **k) * 2
    return w

def add(n):
    def deco(f):
        def w(*a, **k):
            return f(*a, **k) + n
        return w
    return deco

@twice
@add(3)
def f(x):
    return x

@add(1)
@twice
def g(x):
    return x

def prog(a, b, s):
    return (f(a), g(b))
''',
    # 21: conditional expressions, boolean operators and chained comparisons inside statements
    '''
def prog(a, b, s):
    r = a if a > b else b if b > 0 else 0
    t = a < b < 3 or a == b
    u = not a and b
    v = a or b and s
    w = (a, b) < (b, a)
    return (r, t, u, v, w, -a ** 2, a - b - 1, 2 ** a if a >= 0 else None, a // 2 * 2 + a % 2)
''',
    # 22: star-args calls, keyword unpacking
    '''
def f(*args, **kw):
    return (args, sorted(kw.items()))

def prog(a, b, s):
    l = [a, b]
    d = {"x": a}
    return (f(*l), f(*l, 3, *l), f(**d), f(1, *l, y=b, **d), f(*s))
''',
    # 23: while True / nested break, try in loop with continue in finally-less handler
    '''
def prog(a, b, s):
    out = []
    n = 0
    while True:
        n += 1
        try:
            if n == a:
                raise ValueError
            if n > 3:
                break
            out.append(n)
        except ValueError:
            out.append("v")
            continue
        finally:
            out.append("f")
        out.append("t")
    return out
''',
    # 24: class bodies - class attributes computed in the body, nested class, __slots__-less attribute set, method default args
    '''
class K:
    base = 2
    sq = base * base
    items = [i * 2 for i in range(3)]
    class Inner:
        v = 7
    def m(self, x=base):
        return x + self.sq

def prog(a, b, s):
    k = K()
    k.extra = a
    return (K.sq, K.items, K.Inner.v, k.m(), k.m(b), k.extra, hasattr(K, "extra"))
''',
    # 25: global code executed in order; names rebinding; function using a later-defined function
    '''
v = 1
def early():
    return later() + v
v = 2
def later():
    return 10
w = early()
v = 3

def prog(a, b, s):
    return (w, early(), v + a)
''',
    # 26: string methods / slicing semantic on symbolic string
    '''
def prog(a, b, s):
    t = s + "ab"
    return (t[a:b], t[::-1], t[a], s * b if b >= 0 else "", t.find("b"), [c for c in s], s.upper() if s else "empty")
''',
    # 27: dict / set comprehension, sorted with key, enumerate/zip
    '''
def prog(a, b, s):
    d = {k: v for k, v in zip("xyz", [a, b, 3]) if v != 0}
    st = {x % 3 for x in (a, b, 4)}
    return (d, sorted(st), sorted(d.items(), key=lambda kv: (-kv[1], kv[0])), list(enumerate(s, a)))
''',
    # 28: try / except with multiple handlers and re-raise; exception in except
    '''
def f(x):
    try:
        return [10, 20][x] // x
    except ZeroDivisionError:
        raise
    except IndexError:
        return -1
    except Exception:
        return -2

def prog(a, b, s):
    out = []
    for v in (a, b, s):
        try:
            out.append(f(v))
        except ZeroDivisionError:
            out.append("zd")
        except TypeError:
            out.append("te")
    return out
''',
    # 29: recursion, default None idiom, early return, nested function definitions
    '''
def fact(n, acc=None):
    if acc is None:
        acc = 1
    if n <= 1:
        return acc
    return fact(n - 1, acc * n)

def prog(a, b, s):
    def inner(x):
        def inner2(y):
            return x * y + a
        return inner2
    return (fact(a + 3), inner(b)(2), fact(b))
''',
    # 31 (listed before 30 only in this file's order; indices follow the list): identifiers whose spelling equals a keyword
    # expression with the blanks removed (`word` / `w or d`, `note` / `not e`, `xiny` / `x in y`, ...), both orders
    '''
def prog(a, b, s):
    w = a
    d = b
    e = a
    x = a
    y = [a, b]
    word = 100
    note = 200
    xiny = 300
    wandd = 400
    eifwelsed = 500
    wisd = 600
    r1 = [word, w or d, note, not e, xiny, x in y]
    r2 = [w and d, wandd, e if w else d, eifwelsed, w is d, wisd]
    r3 = [w or d, word, not e, note, x in y, xiny]
    return (r1, r2, r3)
''',
    # annotations are evaluated when the statement runs (module level and class bodies), not kept as strings
    '''
LOG = []
def tag(v):
    LOG.append(v)
    return int

x: tag(1) = 1
y: tag(2)

class H:
    n: tag(3) = 0

def prog(a, b, s):
    return (list(LOG), H.__annotations__ == {"n": int}, x + a, "y" in globals())
''',
    # 30: type alias statement / walrus-free constructs / ellipsis / slices objects
    '''
def prog(a, b, s):
    sl = slice(a, b)
    l = [0, 1, 2, 3, 4]
    return (l[sl], l[a:b:2] if True else ..., Ellipsis is ..., l[slice(None, None, -1)])
''',
]
