"""C08 (in part): Python embedded in a spec is executed with CPython's meaning - decided per PROGRAM of a stated
corpus for ALL DATA inside the bound.

The spec reader (ANTLR front end + visitors) cannot run on symbolic text, so programs are enumerated (harness/pycorpus.py)
and translated once, at import, by the real reader; what is symbolic is the DATA the two compiled programs run on:
  A_, B_ (ints), S_ (str), the leaves below <x> and <y>.
real      = what Fandango executes: the constraint object built by the reader (expression string + searches + the
            spec's global environment) evaluated through Constraint.check(); resp. the function object that
            FandangoSpec.run_code() left in the spec environment;
reference = CPython's own compilation of the SAME text (symbol references replaced by fresh variables).
Property per path: same value (type-exact) or same exception class; a raising constraint expression fails the
constraint.  A program the reader rejects with an error is `rejected` (allowed by the property, reported in the
evidence), never compared.

Parameters: H_KIND in expr|formula|stmt, H_FROM/H_TO program index range, H_LO/H_HI int range, H_SLEN.
"""
import os
import re

from harness.common import *  # noqa
from harness import pycorpus as PC
import fandango.constraints.predicates as predicates

GRAMMAR = '<start> ::= <x> ";" <y>\n<x> ::= <d> <d>?\n<y> ::= <d>\n<d> ::= "0" | "2" | "7" | "a"\n'
ALPHA = "027a"
NT = NonTerminal
KIND = os.environ.get("H_KIND", "expr")
CORPUS = {"expr": PC.EXPRS, "formula": PC.FORMULAS, "stmt": PC.STMTS}[KIND]
FROM = int(os.environ.get("H_FROM", "0"))
TO = min(int(os.environ.get("H_TO", str(len(CORPUS)))), len(CORPUS))
LO = int(os.environ.get("H_LO", "-2"))
HI = int(os.environ.get("H_HI", "2"))
SLEN = int(os.environ.get("H_SLEN", "1"))
XMAX = int(os.environ.get("H_XMAX", "2"))  # leaves below <x>

REC = []


def rec_(v):
    REC.append(v)
    return True


def _globals_of(c):
    """every distinct global-variable dict reachable from a constraint object"""
    out, seen = [], set()

    def walk(x):
        if id(x) in seen:
            return
        seen.add(id(x))
        gv = getattr(x, "global_variables", None)
        if isinstance(gv, dict) and not any(gv is o for o in out):
            out.append(gv)
        for attr in ("statement", "antecedent", "consequent"):
            if hasattr(x, attr):
                walk(getattr(x, attr))
        for sub in getattr(x, "constraints", []) or []:
            walk(sub)
    walk(c)
    return out


def _clear(c):
    seen = set()

    def walk(x):
        if id(x) in seen:
            return
        seen.add(id(x))
        if hasattr(x, "cache"):
            x.cache.clear()
        for attr in ("statement", "antecedent", "consequent"):
            if hasattr(x, attr):
                walk(getattr(x, attr))
        for sub in getattr(x, "constraints", []) or []:
            walk(sub)
    walk(c)


def _ref_text(text):
    return text.replace("<x>", "X_").replace("<y>", "Y_")


def translate(kind, text):
    """(real, reference, rejected_reason) for one program; runs the real spec reader (import time only)"""
    if kind == "stmt":
        refg = predicates.__dict__.copy()
        refg.update({"__name__": "__main__"})
        exec(compile(text, "<ref>", "exec"), refg)
        try:
            g, _ = parse(text + '\n<start> ::= "a"\n', use_stdlib=False, use_cache=False)
            real = g.get_spec_env()[0].get("prog")
            if real is None:
                return None, refg["prog"], "reader produced no prog()"
        except Exception as e:  # rejected with an error
            return None, refg["prog"], f"{type(e).__name__}: {str(e)[:120]}"
        return real, refg["prog"], None
    wrapped = f"rec_({text})" if kind == "expr" else text
    refg = predicates.__dict__.copy()
    src = "def _ref(X_, Y_, A_, B_, S_, L_):\n    return (" + _ref_text(text) + ")\n"
    exec(compile(src, "<ref>", "exec"), refg)
    try:
        g, cs = parse(GRAMMAR + "where " + wrapped + "\n", use_stdlib=False, use_cache=False)
        c = cs[0]
    except Exception as e:
        return None, refg["_ref"], f"{type(e).__name__}: {str(e)[:120]}"
    return c, refg["_ref"], None


PROGS = {}
REJECTED = {}
for _i in range(FROM, TO):
    _real, _ref, _why = translate(KIND, CORPUS[_i])
    PROGS[_i] = (_real, _ref)
    if _why:
        REJECTED[_i] = _why


def mk_tree(x, y):
    def d(c):
        return DerivationTree(NT("<d>"), [DerivationTree(Terminal(c))])
    return DerivationTree(NT("<start>"), [DerivationTree(NT("<x>"), [d(c) for c in x]), DerivationTree(Terminal(";")),
                                          DerivationTree(NT("<y>"), [d(y)])])


def same(u, v):
    """type-exact structural equality (1 vs True, 1 vs 1.0, [..] vs (..) differ); no repr(): the C-level container
    repr would call element dunders with tracing off"""
    if type(u) is not type(v):
        return False
    if isinstance(u, (list, tuple)):
        if len(u) != len(v):
            return False
        for x, y in zip(u, v):
            if not same(x, y):
                return False
        return True
    if isinstance(u, dict):
        if len(u) != len(v):
            return False
        for (k1, v1), (k2, v2) in zip(list(u.items()), list(v.items())):  # insertion order is part of the meaning
            if not (same(k1, k2) and same(v1, v2)):
                return False
        return True
    if isinstance(u, (set, frozenset)):
        return u == v and same(sorted(u, key=str), sorted(v, key=str))
    if isinstance(u, float):
        return str(u) == str(v)
    if callable(u) and not isinstance(u, type):
        return callable(v)
    return u == v


def run_fn(fn, *args):
    try:
        return ("val", fn(*args))
    except Exception as e:
        return ("exc", type(e).__name__)


def pin_unused(text, a, b, s, x, y):
    """data a program does not mention is pinned (an assumption placed before the code it constrains)"""
    if kind_uses(text, "A_", "a"):
        pass
    else:
        assume(a == 0)
    if not kind_uses(text, "B_", "b"):
        assume(b == 1)
    if not kind_uses(text, "S_", "s"):
        assume(s == "")
    if "L_" in text and KIND != "stmt":
        pass
    if KIND == "stmt" or "<x>" not in text:
        assume(x == "2")
    if KIND == "stmt" or "<y>" not in text:
        assume(y == "7")


def kind_uses(text, gname, pname):
    if KIND == "stmt":
        return re.search(r"\b%s\b" % pname, text.split("def prog", 1)[1]) is not None
    return gname in text or (gname in ("A_", "B_") and "L_" in text)


FULL = os.environ.get("H_FULL", "0") == "1"


def FLOATY(text):
    """programs whose value is a float computed from A_/B_: CrossHair's symbolic float arithmetic costs minutes per query
    (plug-in item 8), so the ints are case-split into concrete values first (still every value of the range, one path each)"""
    return KIND == "expr" and (" / " in text or "** -" in text or "0.1" in text)


def concretise(v):
    for k in range(LO, HI + 1):
        if v == k:
            return k
    return v


def show(v):
    """repr-like rendering that never calls a container's C-level repr (CrossHair renders 1-tuples without the comma)"""
    if isinstance(v, tuple):
        return "T(" + ", ".join(show(x) for x in v) + ")"
    if isinstance(v, list):
        return "[" + ", ".join(show(x) for x in v) + "]"
    if isinstance(v, dict):
        return "{" + ", ".join(show(k) + ": " + show(x) for k, x in v.items()) + "}"
    if isinstance(v, (set, frozenset)):
        return "S{" + ", ".join(sorted(show(x) for x in v)) + "}"
    if callable(v) and not isinstance(v, type):
        return "<callable>"
    return type(v).__name__ + ":" + str(v)


def observe(p, a, b, s, x, y):
    """(real observation, reference observation) of program p on the given data"""
    real, ref = PROGS[p]
    text = CORPUS[p]
    if KIND == "stmt":
        return run_fn(real, a, b, s), run_fn(ref, a, b, s)
    if FLOATY(text):
        a, b = concretise(a), concretise(b)
    env = {"A_": a, "B_": b, "S_": s, "L_": [a, b, 3], "rec_": rec_}
    if KIND == "expr" and not FULL and "<x>" not in text and "<y>" not in text and type(real).__name__ == "ExpressionConstraint" and not real.searches:
        # no symbol reference: the tree plays no role; call the evaluation step of ExpressionConstraint.fitness directly
        # (same expression string, same environments).  The conformance gate compares this shortcut with the full
        # Constraint.check() path for every program.
        real.global_variables.update(env)
        del REC[:]
        try:
            verdict = bool(type(real).eval(real.expression, real.global_variables, dict(real.local_variables)))
        except Exception:
            verdict = False
        got = (("val", REC[0]) if (verdict is True and len(REC) == 1) else ("bad", verdict, len(REC))) if REC else (("exc", None) if verdict is False else ("bad", verdict, 0))
        want = run_fn(ref, None, None, a, b, s, [a, b, 3])
        if want[0] == "exc":
            want = ("exc", None)
        return got, want
    tree = mk_tree(x, y)
    for gv in _globals_of(real):
        gv.update(env)
    _clear(real)
    del REC[:]
    verdict = real.check(tree)
    want = run_fn(ref, tree.children[0], tree.children[2], a, b, s, [a, b, 3])
    if KIND == "formula":
        got = ("val", verdict)
        if want[0] == "val":
            want = ("val", bool(want[1]))
        else:
            want = ("val", False)
        return got, want
    if REC:
        got = ("val", REC[0]) if (verdict is True and len(REC) == 1) else ("bad", verdict, len(REC))
    else:
        got = ("exc", None) if verdict is False else ("bad", verdict, 0)
    if want[0] == "exc":
        want = ("exc", None)  # a raising constraint expression fails the constraint; the class is not observable
    return got, want


def agree(got, want):
    if got[0] != want[0]:
        return False
    if got[0] == "val":
        return same(got[1], want[1])
    return got[1] == want[1]


def equiv(p: int, a: int, b: int, s: str, x: str, y: str) -> bool:
    """
    pre: FROM <= p < TO and LO <= a <= HI and LO <= b <= HI
    pre: len(s) <= SLEN and all(c in "ab" for c in s)
    pre: 1 <= len(x) <= XMAX and len(y) == 1 and all(c in ALPHA for c in x) and all(c in ALPHA for c in y)
    post: _
    """
    text = CORPUS[p]
    exclude_known("equiv", p=p, a=a, b=b, s=s, x=x, y=y, KIND=KIND, TEXT=text)
    if PROGS[p][0] is None:
        return True  # rejected with an error by the reader: allowed, reported
    pin_unused(text, a, b, s, x, y)
    got, want = observe(p, a, b, s, x, y)
    return agree(got, want)


def reach(p: int, a: int, b: int, s: str, x: str, y: str) -> bool:
    """
    pre: FROM <= p < TO and LO <= a <= HI and LO <= b <= HI
    pre: len(s) <= SLEN and all(c in "ab" for c in s)
    pre: 1 <= len(x) <= XMAX and len(y) == 1 and all(c in ALPHA for c in x) and all(c in ALPHA for c in y)
    post: _
    """
    text = CORPUS[p]
    if PROGS[p][0] is None:
        return True
    pin_unused(text, a, b, s, x, y)
    got, want = observe(p, a, b, s, x, y)
    return not (got[0] == "val" and want[0] == "val" and a != 0)


def obs(p, a, b, s, x, y):
    if PROGS[p][0] is None:
        return "rejected"
    global FULL
    got, want = observe(p, a, b, s, x, y)
    out = [show(got), show(want)]
    if KIND == "expr":
        keep = FULL
        FULL = True  # the full Constraint.check() path must agree with the shortcut
        try:
            got2, _ = observe(p, a, b, s, x, y)
        finally:
            FULL = keep
        out.append(show(got2))
    return out


CONFORMANCE = []
if os.environ.get("VERIF_CONFORM"):
    for _p in range(FROM, TO):
        # expressions: every 4th program and every program with a symbol reference (each observation also compares the
        # shortcut with the full Constraint.check() path); formulas and statement programs: all
        if KIND != "expr" or _p % 4 == 0 or "<x>" in CORPUS[_p] or "<y>" in CORPUS[_p]:
            CONFORMANCE.append(("obs", [_p, 2, -1, "a", "27", "2"]))
            if KIND != "expr":
                CONFORMANCE.append(("obs", [_p, 0, 1, "", "a", "0"]))


if __name__ == "__main__":  # native survey: enumerate the whole bound concretely (development aid, not a check)
    import itertools
    import sys

    bad = {}
    for p in range(FROM, TO):
        if PROGS[p][0] is None:
            print("rejected", KIND, p, repr(CORPUS[p])[:70], REJECTED[p])
            continue
        text = CORPUS[p]
        for a, b in itertools.product(range(LO, HI + 1), repeat=2):
            for s, x, y in (("", "2", "7"), ("a", "27", "a"), ("b", "a", "0"), ("a", "0", "2")):
                try:
                    got, want = observe(p, a, b, s, x, y)
                except Exception as e:
                    got, want = ("crash", repr(e)[:80]), None
                if want is None or not agree(got, want):
                    bad.setdefault(p, (a, b, s, x, y, got, want))
    for p, w in bad.items():
        print("MISMATCH", KIND, p, repr(CORPUS[p])[:80], w)
    print("programs", TO - FROM, "rejected", len(REJECTED), "mismatching", len(bad))
