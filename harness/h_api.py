"""C03/C02 (API history): extra constraints of one fuzz()/init_population() call must not leak into the
spec object or into later calls - otherwise a tree that satisfies the spec is no longer reported (C03) or
trees violating an extra are reported (C02).

Real code: Fandango.init_population (api.py) + FandangoStrategy/Evaluator construction.
Symbolic: a sequence (len <= H_CALLS) of calls, each choosing which pre-built extra-constraint objects it
passes (bit mask) and whether the base constraints are skipped.  After every call: the spec object's own
constraint list is unchanged (same objects, same order) and the evaluator built for the call holds exactly
base (+ chosen extras), partitioned by kind.
"""
import os
from typing import List

from harness.common import *  # noqa
from fandango import Fandango
import fandango.evolution.algorithm as ALG

NCALLS = int(os.environ.get("H_CALLS", "2"))
SPEC = '<start> ::= <n> <item>{int(<n>)}\n<n> ::= "1" | "2" | "3"\n<item> ::= "i" | "j"\nwhere int(<n>) >= 1\n'
F = Fandango(SPEC, use_stdlib=False, use_cache=False)
BASE = list(F.constraints)
_g, EXTRAS = load_with_constraints(SPEC.replace("where int(<n>) >= 1", "where int(<n>) >= 3\nwhere str(<item>) == \"i\""))
EXTRAS = [c for c in EXTRAS if type(c).__name__ != "RepetitionBoundsConstraint"]


def calls_are_independent(masks: List[int], skips: List[bool]) -> bool:
    """
    pre: 1 <= len(masks) <= NCALLS and len(skips) == len(masks) and all(0 <= m <= 3 for m in masks)
    post: _
    """
    exclude_known("calls_are_independent", masks=masks, skips=skips)
    for m, skip in zip(masks, skips):
        chosen = [EXTRAS[i] for i in range(2) if (m >> i) & 1]
        F.init_population(extra_constraints=list(chosen) if chosen else None, skip_base_constraints=skip, population_size=1,
                          random_seed=1, max_nodes=6)
        if len(F.constraints) != len(BASE) or any(a is not b for a, b in zip(F.constraints, BASE)):
            return False  # the spec object's constraints were changed by a call
        ev = F.fandango.evaluator
        got = list(ev._hard_constraints) + list(ev._repetition_bounds_constraints) + list(ev._soft_constraints)
        want = ([] if skip else list(BASE)) + chosen
        if len(got) != len(want) or any(not any(g is w for g in got) for w in want):
            return False
    return True


def reach(masks: List[int], skips: List[bool]) -> bool:
    """
    pre: 1 <= len(masks) <= NCALLS and len(skips) == len(masks) and all(0 <= m <= 3 for m in masks)
    post: _
    """
    for m, skip in zip(masks, skips):
        chosen = [EXTRAS[i] for i in range(2) if (m >> i) & 1]
        F.init_population(extra_constraints=list(chosen) if chosen else None, skip_base_constraints=skip, population_size=1,
                          random_seed=1, max_nodes=6)
    return not (len(masks) == NCALLS and masks[0] == 3 and masks[-1] == 0)


def obs(masks, skips):
    out = []
    for m, skip in zip(masks, skips):
        chosen = [EXTRAS[i] for i in range(2) if (m >> i) & 1]
        F.init_population(extra_constraints=list(chosen) if chosen else None, skip_base_constraints=skip, population_size=1, random_seed=1, max_nodes=6)
        ev = F.fandango.evaluator
        out.append((len(F.constraints), len(ev._hard_constraints), len(ev._repetition_bounds_constraints)))
    return out


CONFORMANCE = [("obs", [[3, 0], [False, False]]), ("obs", [[1], [True]]), ("obs", [[0, 2], [False, True]])]
