"""C03 (declaration order, E1): the REAL Evaluator constructor + evaluate_individual on a symbolic
declaration order of satisfied hard / repetition-bound constraints.

Symbolic: kinds - list of 0 (hard) / 1 (repetition bound), len <= H_LEN; totals - per-constraint
'total' in 1..3 (solved == total).  After the kinds are fixed on a path, the float arithmetic is
concrete CPython arithmetic.  Assert: the tree is yielded exactly once and fitness == 1.0.
"""
import os
from typing import List

from engine.hshim import *  # noqa
from harness.r_eval import StubHard, StubRep, Evaluator, IoEvaluator, GeneratorWithReturn, DerivationTree, NonTerminal, Terminal

N = int(os.environ.get("H_LEN", "6"))
IO = os.environ.get("H_IO") == "1"


def _run(kinds, totals):
    cons = []
    for k, t in zip(kinds, totals):
        cons.append(StubHard(t, t, False) if k == 0 else StubRep(t, t, False))
    ev = (IoEvaluator if IO else Evaluator)(None, cons, 1.0, 0, 0.0)
    tree = DerivationTree(NonTerminal("<start>"), [DerivationTree(Terminal("a"))])
    g = GeneratorWithReturn(ev.evaluate_individual(tree))
    ys, ret = g.collect()
    return len(ys), ret[0]


def accepted(kinds: List[int]) -> bool:
    """
    pre: 1 <= len(kinds) <= N
    pre: all(0 <= k <= 1 for k in kinds)
    post: _
    """
    n, fit = _run(kinds, [1 + (i % 3) for i in range(len(kinds))])
    return n == 1 and fit == 1.0


def reach(kinds: List[int]) -> bool:
    """
    pre: 1 <= len(kinds) <= N
    pre: all(0 <= k <= 1 for k in kinds)
    post: _
    """
    # twin: some interleaved order (hard, rep, hard) of maximal length is evaluated
    n, fit = _run(kinds, [1 + (i % 3) for i in range(len(kinds))])
    return not (len(kinds) == N and kinds[0] == 0 and kinds[1] == 1 and kinds[2] == 0)


def obs(kinds, totals):
    return _run(kinds, totals)


CONFORMANCE = [("obs", [[0, 1, 0], [1, 2, 3]]), ("obs", [[1, 1, 1, 1, 1, 0], [1, 1, 1, 1, 1, 1]]), ("obs", [[0], [2]])]
