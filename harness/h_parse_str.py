"""C04 / C05 / C06 (str grammars with literal terminals): the real Earley parser
(IterativeParser.new_parse/consume/to_derivation_tree/collapse) on a symbolic word.

Parameters (environment): H_SPEC = member of common.SPECS, H_LEN = max word length,
H_START = start symbol, H_BUDGET = admitted-state budget multiplier (C06).
Symbolic: `word` - any str over all code points with len(word) <= H_LEN.
Oracles: independent derivation checker `valid`, in-order leaf text, reference recogniser `member`.
"""
import os

from harness.common import *  # noqa
from fandango.language.grammar.parser.column import Column

SPEC = os.environ.get("H_SPEC", "prefix")
N = int(os.environ.get("H_LEN", "3"))
START = os.environ.get("H_START", "<start>")
nodes_mod.MAX_REPETITIONS = 20
G = load(SPEC)
MODE = ParsingMode.INCOMPLETE if os.environ.get("H_MODE") == "incomplete" else ParsingMode.COMPLETE


class Diverged(Exception):
    pass


def state_budget(g, n):
    """Earley bound: per column at most (#dotted rules) x (#origin columns) states; Fandango keeps
    one state per distinct child list, so ambiguity multiplies it: budget = 8 * bound * (n+1)."""
    p = IterativeParser(g.rules)
    dotted = 0
    for table in (p._rules, p._implicit_rules):
        for alts in table.values():
            for alt in alts:
                dotted += len(alt) + 1
    cols = 8 * n + 1
    return 8 * dotted * (n + 1) * (n + 1) + 64, dotted, cols


BUDGET, DOTTED, _ = state_budget(G, N)


def bounded_forest(g, word, start, mode, budget):
    """real parser with the number of admitted states counted (Column.add wrapped)"""
    n = [0]
    orig = Column.add

    def add(self, state):
        r = orig(self, state)
        if r:
            n[0] += 1
            if n[0] > budget:
                raise Diverged()
        return r

    Column.add = add
    try:
        return iter_forest(g, word, start, mode)
    finally:
        Column.add = orig


# ------------------------------------------------------------------------------------------------
def sound(word: str) -> bool:
    """
    pre: len(word) <= N
    post: _
    """
    return _sound(word)


def _sound(word):
    # body of `sound` without a contract of its own: CrossHair assumes the contracts of CALLED functions, so a
    # contract function that delegates to another contract function would silently drop the callee's failures
    exclude_known("sound", word=word, SPEC=SPEC)
    try:
        ts = bounded_forest(G, word, START, ParsingMode.COMPLETE, BUDGET)
    except Diverged:
        raise IgnoreAttempt("divergence is C06's business")
    for t in ts:
        if t is None:
            return False
        if not (t.symbol.is_non_terminal and t.symbol.name() == START):
            return False
        if not valid(G, t):
            return False
        if text_of(t) != word:
            return False
        if t.to_string() != word:
            return False
        if not no_helper_symbols(t):
            return False
    return True


def complete(word: str) -> bool:
    """
    pre: len(word) <= N
    post: _
    """
    return _complete(word)


def _complete(word):
    # body of `complete` without a contract of its own: CrossHair assumes the contracts of CALLED functions, so a
    # contract function that delegates to another contract function would silently drop the callee's failures
    exclude_known("complete", word=word, SPEC=SPEC)
    try:
        ts = bounded_forest(G, word, START, ParsingMode.COMPLETE, BUDGET)
    except Diverged:
        raise IgnoreAttempt("divergence is C06's business")
    return (len(ts) > 0) == member(G, word, START)


def reach(word: str) -> bool:
    """
    pre: len(word) <= N
    post: _
    """
    return _reach(word)


def _reach(word):
    # body of `reach` without a contract of its own: CrossHair assumes the contracts of CALLED functions, so a
    # contract function that delegates to another contract function would silently drop the callee's failures
    # twin: "no word of maximal length parses" must be refuted
    try:
        ts = bounded_forest(G, word, START, ParsingMode.COMPLETE, BUDGET)
    except Diverged:
        return True
    return not (len(word) >= N_REACH and len(ts) > 0)


N_REACH = int(os.environ.get("H_REACH", str(N)))


def terminates(word: str) -> bool:
    """
    pre: len(word) <= N
    post: _
    """
    return _terminates(word)


def _terminates(word):
    # body of `terminates` without a contract of its own: CrossHair assumes the contracts of CALLED functions, so a
    # contract function that delegates to another contract function would silently drop the callee's failures
    exclude_known("terminates", word=word, SPEC=SPEC)
    try:
        bounded_forest(G, word, START, MODE, BUDGET)
    except Diverged:
        return False
    except RecursionError:
        return True  # "raises after finitely many steps" is allowed by the property
    return True


def reach_states(word: str) -> bool:
    """
    pre: len(word) <= N
    post: _
    """
    # twin for `terminates`: the counter is live (some word admits more than DOTTED/4 states)
    try:
        bounded_forest(G, word, START, MODE, max(2, DOTTED // 4))
    except Diverged:
        return False
    return True


# ---- finite-alphabet variants (regex terminals: `re`/`regex` realise the word, so the engine exhausts the
# stated alphabet by path splitting instead of reasoning over all code points) -------------------------------
ALPHA = os.environ.get("H_ALPHA", "ab")


def concretise(word):
    """case split over the stated alphabet: one path per concrete word (CrossHair's own symbolic regex
    matcher would otherwise explore thousands of partial-match paths for a handful of words)"""
    out = ""
    for c in word:
        for a in ALPHA:
            if c == a:
                out += a
                break
        else:
            raise IgnoreAttempt("outside the alphabet")
    return out


def sound_fa(word: str) -> bool:
    """
    pre: len(word) <= N and all(c in ALPHA for c in word)
    post: _
    """
    return _sound(concretise(word))


def complete_fa(word: str) -> bool:
    """
    pre: len(word) <= N and all(c in ALPHA for c in word)
    post: _
    """
    exclude_known("complete_fa", word=word, SPEC=SPEC)
    return _complete(concretise(word))


def terminates_fa(word: str) -> bool:
    """
    pre: len(word) <= N and all(c in ALPHA for c in word)
    post: _
    """
    return _terminates(concretise(word))


def reach_fa(word: str) -> bool:
    """
    pre: len(word) <= N and all(c in ALPHA for c in word)
    post: _
    """
    return _reach(concretise(word))


# ------------------------------------------------------------------------------------------------
CONF_NAMES = ["prefix", "list", "nested", "amb", "rec", "uni", "open", "rx1", "rx2", "rxstar", "rxopt", "rxuni"]
CONF_G = {n: load(n) for n in CONF_NAMES} if os.environ.get("VERIF_CONFORM") else {}


def obs_forest(name, word, start="<start>"):
    g = CONF_G[name]
    ts = iter_forest(g, word, start)
    return [repr(t) for t in ts], member(g, word, start), [valid(g, t) for t in ts]


CONFORMANCE = [
    ("obs_forest", ["prefix", "xyz"]),
    ("obs_forest", ["prefix", "xz"]),
    ("obs_forest", ["prefix", "xy"]),
    ("obs_forest", ["list", "ab,a01;"]),
    ("obs_forest", ["list", "bbb,a1"]),
    ("obs_forest", ["list", "a,"]),
    ("obs_forest", ["nested", "aab-a-"]),
    ("obs_forest", ["nested", "ab-ab"]),
    ("obs_forest", ["amb", "x"]),
    ("obs_forest", ["amb", "y"]),
    ("obs_forest", ["rec", "aaa=bb"]),
    ("obs_forest", ["rec", "=b"]),
    ("obs_forest", ["uni", "\xe9€x\U0001f600"]),
    ("obs_forest", ["uni", "q\xe9", "<alt>"]),
    ("obs_forest", ["open", "aaab"]),
    ("obs_forest", ["open", "abbb"]),
    ("obs_forest", ["rx1", "abac"], "concrete"),
    ("obs_forest", ["rx1", "c"], "concrete"),
    ("obs_forest", ["rx2", "x12y"], "concrete"),
    ("obs_forest", ["rx2", "x12b"], "concrete"),
    ("obs_forest", ["rxstar", "aabx"], "concrete"),
    ("obs_forest", ["rxopt", "xy"], "concrete"),
    ("obs_forest", ["rxopt", "x7y"], "concrete"),
    ("obs_forest", ["rxuni", "a\xe9a!"], "concrete"),
]
