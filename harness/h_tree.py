"""C10: bookkeeping (size, hash, equality, parent links) and aliasing under sequences of tree operations.

Symbolic: shape (which initial tree), ops / args - a sequence of operation codes with a node-index
operand each (length <= H_OPS; the FIRST operation is fixed per condition by H_OP0 so that conditions
run in parallel).  The harness holds every tree object that was produced ("already emitted" trees
included) and, after EVERY step, checks for every held tree:
  size() == recount; hash == hash of a from-scratch rebuild; each child's parent is the node listing
  it; for every pair, == agrees with a structural comparison (Symbol.__eq__, sender, recipient, shape);
and for operations that must not modify their input (indexing, slicing, searches, value conversion,
deepcopy, split_end/prefix on a copy, replace, crossover, mutation) the input is structurally identical
to a snapshot taken before the call, object identities of its nodes included.
"""
import os
from typing import List

from harness.common import *  # noqa
from fandango.language.search import RuleSearch, ItemSearch, AttributeSearch, DescendantAttributeSearch
from fandango.evolution.crossover import SimpleSubtreeCrossover
from fandango.evolution.mutation import SimpleMutation
from fandango.constraints.failing_tree import FailingTree, NopSuggestion
import fandango.evolution.crossover as XO
import fandango.evolution.mutation as MU

NOPS = int(os.environ.get("H_OPS", "2"))
OP0 = int(os.environ.get("H_OP0", "0"))
SHAPE = int(os.environ.get("H_SHAPE", "0"))
MAXARG = int(os.environ.get("H_MAXARG", "6"))
LATER = [int(x) for x in os.environ.get("H_LATER", ",".join(str(i) for i in range(16))).split(",")]  # op codes allowed after the first
SPEC = '<start> ::= <a> <b>\n<a> ::= "x" | "z" | <a> "x"\n<b> ::= "y" <a>? | <a> "q"\n'
G = load(SPEC)
NT = NonTerminal


def T(sym, *kids, sender=None, recipient=None):
    s = NT(sym) if isinstance(sym, str) and sym.startswith("<") else Terminal(sym)
    return DerivationTree(s, list(kids), sender=sender, recipient=recipient)


def initial(shape):
    if shape == 0:
        return T("<start>", T("<a>", T("x")), T("<b>", T("y"), T("<a>", T("x"))))
    if shape == 1:
        return T("<start>", T("<a>", T("<a>", T("z")), T("x"), sender="P"), T("<b>", T("<a>", T("x")), T("q")))
    # mixed leaf kinds whose Python hashes collide ("x" / b"x") and a bit leaf
    return T("<start>", T("<a>", T(b"x")), T("<b>", T("y", ), T("<a>", T(1))))


# ---- oracle helpers ----------------------------------------------------------------------------
def recount(t):
    return 1 + sum(recount(c) for c in t.children)


def rebuild(t):
    return DerivationTree(t.symbol, [rebuild(c) for c in t.children], sender=t.sender, recipient=t.recipient)


def struct_eq(a, b):
    if type(a.symbol) is not type(b.symbol):
        return False
    va, vb = a.symbol.value(), b.symbol.value()
    if not (isinstance(va._value, str) == isinstance(vb._value, str) and isinstance(va._value, bytes) == isinstance(vb._value, bytes)):
        return False
    if va._value != vb._value or va._trailing_bits != vb._trailing_bits:
        return False
    if a.sender != b.sender or a.recipient != b.recipient or len(a.children) != len(b.children):
        return False
    return all(struct_eq(x, y) for x, y in zip(a.children, b.children))


def snapshot(t):
    """structure + identities + parent identities"""
    return [(id(n), id(n.parent) if n.parent is not None else None, n.symbol.format_as_spec(), n.sender, n.recipient,
             [id(c) for c in n.children]) for n in t.flatten()]


def consistent(t):
    for n in t.flatten():
        if n.size() != recount(n):
            return False
        for c in n.children:
            if c.parent is not n:
                return False
    for n in t.flatten():
        if hash(n) != hash(rebuild(n)):
            return False
    return True


class Draw:
    """deterministic 'random' for the evolutionary operators: always the element selected by `k`"""

    def __init__(self, k):
        self.k = k

    def choice(self, seq):
        return seq[self.k % len(seq)]

    def randint(self, a, b):
        return a + self.k % (b - a + 1)

    def random(self):
        return 0.5


NOPC = 16


def step(held, op, arg):
    """apply one operation to held[0] (the 'current' tree); may append new trees to `held`.
    returns False if a must-not-modify operation modified its input"""
    cur = held[0]
    nodes = cur.flatten()
    n = nodes[arg % len(nodes)]
    if op == 0:
        n.add_child(T("z")) if n.symbol.is_non_terminal else None
    elif op == 1:
        if n.children:
            n.set_children(n.children[:-1])
    elif op == 2:
        if n.symbol.is_non_terminal:
            n.symbol = NT("<a>") if n.symbol.name() != "<a>" else NT("<b>")
    elif op == 3:
        n.sender = "Q" if n.sender is None else None
    elif op == 4:
        n.recipient = "R"
    elif op == 5:
        before = snapshot(cur)
        held.append(cur.deepcopy())
        return snapshot(cur) == before
    elif op == 6:  # slicing / indexing are read-only accessors
        before = snapshot(cur)
        if len(n.children) >= 1:
            n[0:2]
            n[0]
            n[-1:]
        return snapshot(cur) == before
    elif op == 7:  # selector searches
        before = snapshot(cur)
        ItemSearch(RuleSearch(NT("<b>")), [slice(0, 2)]).find(cur)
        ItemSearch(RuleSearch(NT("<start>")), [slice(1, None)]).find(cur)
        RuleSearch(NT("<a>")).find(cur)
        AttributeSearch(RuleSearch(NT("<start>")), RuleSearch(NT("<b>"))).find(cur)
        DescendantAttributeSearch(RuleSearch(NT("<start>")), RuleSearch(NT("<a>"))).find(cur)
        return snapshot(cur) == before
    elif op == 8:  # value conversion and hashing
        before = snapshot(cur)
        try:
            str(n), n.to_bits(), hash(n), hash(cur), n.to_string()
        except Exception:
            pass
        return snapshot(cur) == before
    elif op == 9:
        before = snapshot(cur)
        r = n.split_end()
        held.append(r.get_root())
        return snapshot(cur) == before
    elif op == 10:
        before = snapshot(cur)
        if n.parent is not None:
            r = n.prefix()
            held.append(r.get_root())
        return snapshot(cur) == before
    elif op == 11:  # subtree replacement returns a new tree
        before = snapshot(cur)
        same = [m for m in nodes if m.symbol == n.symbol and m is not n]
        repl = same[0] if same else T("<a>", T("z")) if n.symbol == NT("<a>") else n
        new = cur.replace(G, n, repl)
        held.append(new)
        return snapshot(cur) == before and all(id(x) not in {id(y) for y in cur.flatten()} or x is cur for x in new.flatten() if False) is not None
    elif op == 12:  # crossover with another held tree
        other = held[-1]
        b1, b2 = snapshot(cur), snapshot(other)
        saved = XO.random
        XO.random = Draw(arg)
        try:
            res = SimpleSubtreeCrossover().crossover(G, cur, other)
        finally:
            XO.random = saved
        if res is not None:
            held.extend(res)
        return snapshot(cur) == b1 and snapshot(other) == b2
    elif op == 13:  # mutation
        before = snapshot(cur)
        target = n if n.symbol.is_non_terminal else cur

        def evaluate(ind):
            return 0.0, [FailingTree(target, None)], NopSuggestion()
            yield  # pragma: no cover

        saved = MU.random
        MU.random = Draw(arg)
        import fandango.language.grammar.nodes.alternative as A_, fandango.language.grammar.nodes.repetition as R_
        import fandango.language.grammar.nodes.terminal as T_
        s2 = (A_.random, R_.random, T_.random)
        A_.random = R_.random = T_.random = Draw(arg)
        try:
            gen = SimpleMutation().mutate(cur, G, evaluate)
            try:
                while True:
                    next(gen)
            except StopIteration as e:
                held.append(e.value)
        finally:
            MU.random = saved
            A_.random, R_.random, T_.random = s2
        return snapshot(cur) == before
    elif op == 14:  # make an older held tree the current one (edits then hit a tree that has copies)
        held[0], held[-1] = held[-1], held[0]
    elif op == 15:
        before = snapshot(cur)
        cur.get_choices_path(), n.get_choices_path(), n.get_root(), cur.find_all_nodes(NT("<a>")), n.get_path()
        return snapshot(cur) == before
    return True


def all_consistent(held):
    for t in held:
        if not consistent(t):
            return False
    for i in range(len(held)):
        for j in range(i, len(held)):
            if (held[i] == held[j]) != struct_eq(held[i], held[j]):
                return False
    return True


def bookkeeping(ops: List[int], args: List[int]) -> bool:
    """
    pre: len(ops) <= NOPS - 1 and len(args) == len(ops) + 1
    pre: all(o in LATER for o in ops) and all(0 <= a <= MAXARG for a in args)
    post: _
    """
    shape = SHAPE
    seq = [OP0] + list(ops)
    exclude_known("bookkeeping", shape=shape, ops=seq, args=args)
    cur = initial(shape)
    emitted = cur.deepcopy()  # a solution the caller already holds
    ref = rebuild(emitted)
    hash(cur)
    held = [cur, emitted]
    for o, a in zip(seq, args):
        if not step(held, o, a):
            return False
        if not all_consistent(held):
            return False
    return True


def reach(ops: List[int], args: List[int]) -> bool:
    """
    pre: len(ops) <= NOPS - 1 and len(args) == len(ops) + 1
    pre: all(o in LATER for o in ops) and all(0 <= a <= MAXARG for a in args)
    post: _
    """
    # twin: a full-length sequence ends with at least 3 held trees
    shape = SHAPE
    seq = [OP0] + list(ops)
    cur = initial(shape)
    held = [cur, cur.deepcopy()]
    for o, a in zip(seq, args):
        step(held, o, a)
    return not (len(seq) == NOPS and len(held) >= 3)


def obs(shape, seq, args):
    cur = initial(shape)
    held = [cur, cur.deepcopy()]
    out = []
    for o, a in zip(seq, args):
        out.append(step(held, o, a))
        out.append(all_consistent(held))
    return out, [repr(t) for t in held]


CONFORMANCE = [("obs", [0, [5, 0, 1], [0, 2, 3]]), ("obs", [1, [11, 12], [1, 2]]), ("obs", [2, [6, 7, 8], [4, 0, 5]]),
               ("obs", [0, [9, 10, 14, 3], [5, 5, 0, 1]]), ("obs", [1, [13, 2], [1, 3]]), ("obs", [0, [6, 0], [4, 4]])]
