"""Native probe/replay for C15 (constraints): argv[1] = JSON {"text": constraint text}.  Reads the constraint
with the C07 harness grammar, prints it with format_as_spec(), reads the printed text back and compares the
verdicts of both on a fixed list of trees.  exit 1 = the printed form is unreadable or means something else."""
import json
import sys

from engine.hshim import *  # noqa
from fandango.language.parse.parse import parse

GRAMMAR = '''<start> ::= <rec> | <rec> ";" <rec>
<rec> ::= <k> "=" <v>+ <flag>?
<flag> ::= "!"
<k> ::= <d>
<v> ::= <d>
<d> ::= "0" | "5" | "a"
'''
WORDS = ["5=0", "a=5;5=00", "0=a5", "5=5;5=5", "0=05;a=0", "5=a", "a=a;a=aa"]


def probe(text):
    g, cs = parse(GRAMMAR + "where " + text + "\n", use_stdlib=False, use_cache=False)
    printed = cs[0].format_as_spec()
    try:
        g2, cs2 = parse(GRAMMAR + "where " + printed + "\n", use_stdlib=False, use_cache=False)
    except Exception as e:
        return {"text": text, "printed": printed, "problem": "printed form rejected by the reader: " + repr(e)[:160]}
    for w in WORDS:
        t1, t2 = g.parse(w), g2.parse(w)
        a, b = cs[0].check(t1), cs2[0].check(t2)
        if a != b:
            return {"text": text, "printed": printed, "problem": f"verdict on {w!r}: {a} before, {b} after the round trip"}
    return {"text": text, "printed": printed, "problem": None}


if __name__ == "__main__":
    r = probe(json.loads(sys.argv[1])["text"])
    print(json.dumps(r))
    sys.exit(1 if r["problem"] else 0)
