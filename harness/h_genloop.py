"""C03 (generation loop): every site of the evolutionary loop that evaluates an individual for the first time reports it.

Real code: the statements of Fandango._generate_simple between `self.population = []` and the end of the
`evaluate_population` block (repair of the new population + re-evaluation), extracted from the CURRENT source by markers
and executed as a generator on a real strategy object (real Evaluator, PopulationManager.fix_individual,
Evaluator.evaluate_population).  This is where mutants and refilled individuals are evaluated for the first time.
Symbolic: which trees make up the new population (indices into all 16 trees of the grammar), and which of them has
already been evaluated (and therefore emitted) before the step.
Assertion: every individual of the new population that satisfies the constraint (harness-owned reference) and was not
emitted before is yielded by the step; nothing that violates the constraint is yielded.
"""
import inspect
import os
import textwrap

from harness.common import *  # noqa
from fandango import Fandango
import fandango.evolution.algorithm as ALG
from fandango.evolution import GeneratorWithReturn

import fandango.language.grammar.grammar as GR


class _Det:
    """the real `random` module must not be reached under tracing (plug-in item 6); the diversity bonus shuffles k-paths, which
    does not influence what is yielded"""

    def shuffle(self, xs):
        pass

    def random(self):
        return 0.5

    def choice(self, xs):
        return xs[0]

    def randint(self, a, b):
        return a


GR.random = _Det()
SPEC = '<start> ::= <d> <d>\n<d> ::= "0" | "1" | "3" | "7"\nwhere int(<start>) % 7 == 3\n'
DIGITS = "0137"
SEEN = int(os.environ.get("H_SEEN", "-1"))  # >= 0: the 'already evaluated' pattern is fixed per condition (conditions run in parallel)
F = Fandango(SPEC, use_stdlib=False, use_cache=False)
F.init_population(population_size=2, random_seed=1, max_nodes=6)
STRAT = F.fandango
G = F.grammar


def _extract():
    src = inspect.getsource(ALG.Fandango._generate_simple).splitlines()
    start = next(i for i, l in enumerate(src) if l.strip() == "self.population = []")
    end = next(i for i, l in enumerate(src) if i > start and l.strip().startswith("current_best_fitness = max("))
    body = textwrap.dedent("\n".join(src[start:end]))
    code = "def _step(self, new_population):\n" + textwrap.indent(body, "    ") + "\n    return self.evaluation\n"
    ns = {}
    exec(compile(code, "<_generate_simple: repair + re-evaluation>", "exec"), vars(ALG), ns)
    return ns["_step"], body


STEP, STEP_SRC = _extract()
assert "evaluate_individual" in STEP_SRC and "evaluate_population" in STEP_SRC, "extraction markers moved: " + STEP_SRC[:200]


def tree_of(i):
    a, b = DIGITS[i // 4], DIGITS[i % 4]

    def d(c):
        return DerivationTree(NonTerminal("<d>"), [DerivationTree(Terminal(c))])
    return DerivationTree(NonTerminal("<start>"), [d(a), d(b)])


def satisfied(i):
    return int(DIGITS[i // 4] + DIGITS[i % 4]) % 7 == 3


def reset():
    ev = STRAT.evaluator
    ev._fitness_cache.clear()
    ev._solution_set.clear()
    if hasattr(ev, "_solutions"):
        del ev._solutions[:]
    for c in F.constraints:
        if hasattr(c, "cache"):
            c.cache.clear()
    STRAT.population = []
    STRAT.evaluation = []


def run_step(k1, k2, seen):
    reset()
    emitted_before = set()
    if seen in (1, 3):
        ys, _ = GeneratorWithReturn(STRAT.evaluator.evaluate_individual(tree_of(k1))).collect()
        emitted_before.update(str(t) for t in ys)
    if seen in (2, 3):
        ys, _ = GeneratorWithReturn(STRAT.evaluator.evaluate_individual(tree_of(k2))).collect()
        emitted_before.update(str(t) for t in ys)
    pop = [tree_of(k1), tree_of(k2)]
    ys, _ = GeneratorWithReturn(STEP(STRAT, pop)).collect()
    return emitted_before, [str(t) for t in ys]


def first_evaluation_reports(k1: int, k2: int, seen: int) -> bool:
    """
    pre: 0 <= k1 < 16 and 0 <= k2 < 16 and 0 <= seen <= 3 and (SEEN < 0 or seen == SEEN)
    post: _
    """
    exclude_known("first_evaluation_reports", k1=k1, k2=k2, seen=seen)
    before, ys = run_step(k1, k2, seen)
    for k in (k1, k2):
        s = DIGITS[k // 4] + DIGITS[k % 4]
        if satisfied(k) and s not in before and s not in ys:
            return False  # a satisfying individual, evaluated here for the first time, was never reported
    for s in ys:
        if int(s) % 7 != 3:
            return False
    return True


def reach(k1: int, k2: int, seen: int) -> bool:
    """
    pre: 0 <= k1 < 16 and 0 <= k2 < 16 and 0 <= seen <= 3 and (SEEN < 0 or seen == SEEN)
    post: _
    """
    before, ys = run_step(k1, k2, seen)
    return not (len(ys) == 2 and seen == 0)


def obs(k1, k2, seen):
    before, ys = run_step(k1, k2, seen)
    return sorted(before), ys


CONFORMANCE = [("obs", [1, 4, 0]), ("obs", [1, 1, 0]), ("obs", [13, 7, 1]), ("obs", [0, 5, 2]), ("obs", [7, 13, 3])]
