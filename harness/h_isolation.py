"""C18: activity on spec object A must not change what spec object B observes afterwards.

Unit under test (real code): Fandango.generate() around the adaptive step at the end of each
generation of _generate_simple - AdaptiveTuner.update_parameters + the set_max_repetition
conditional - whose statements are EXTRACTED FROM THE CURRENT SOURCE by line markers and executed
with symbolic inputs (the surrounding selection/crossover/mutation code does not touch process-wide
state and is not run).  Symbolic: per generation the previous/current best fitness and the diversity
value the tuner sees (indices into finite sets around the tuner's thresholds); the number of generations; whether the caller abandons the run half-way.
Observables of B: Repetition.max of its open-ended repetitions, the rule table a new
IterativeParser compiles for it, Grammar.get_max_repetition(), the initial values a new search on B
would give its tuner.
"""
import inspect
import os
import textwrap
from typing import List

from harness.common import *  # noqa
from fandango.evolution.algorithm import Fandango as Strategy
from fandango.language.grammar.nodes.repetition import Repetition as Rep

NGEN = int(os.environ.get("H_GENS", "2"))
SPEC_A = '<start> ::= <d>+\n<d> ::= "0" | "1"\n'
SPEC_B = '<start> ::= "a"* "b"+ <c>{2,} <c>{,3}\n<c> ::= "c"\n'
GA, CA = load_with_constraints(SPEC_A)
GB = load(SPEC_B)
INITIAL_CAP = nodes_mod.MAX_REPETITIONS


def open_reps(g):
    out = []

    def walk(n):
        if isinstance(n, Rep):
            out.append(n)
        for c in n.children():
            walk(c)

    for r in g.rules.values():
        walk(r)
    return out


def observables():
    p = IterativeParser(GB.rules)
    return (nodes_mod.MAX_REPETITIONS, [r.max for r in open_reps(GB)], len(p._rules), len(p._implicit_rules), GB.get_max_repetition())


def adaptive_block():
    """the statements between the markers, from the current source of _generate_simple"""
    src = inspect.getsource(Strategy._generate_simple).splitlines()
    start = next(i for i, l in enumerate(src) if "current_max_repetitions = self.grammar.get_max_repetition()" in l)
    end = next(i for i, l in enumerate(src) if i > start and "prev_best_fitness = current_best_fitness" in l)
    return compile(textwrap.dedent("\n".join(src[start:end])), "<adaptive block of _generate_simple>", "exec")


BLOCK = adaptive_block()
import random as _random
_random.seed(1)
A = Strategy(GA, CA, population_size=4, random_seed=1)
nodes_mod.MAX_REPETITIONS = INITIAL_CAP


SMALL = os.environ.get("H_SETS", "full") == "small"
PREV_VALUES = (0.0, 0.5) if SMALL else (0.0, 0.25, 0.5, 1.0)
CUR_VALUES = (0.5, 0.5026, 1.0) if SMALL else (0.0, 0.25, 0.2512, 0.5, 0.5026, 1.0)  # just below/above the 0.5 % improvement threshold
DIV_VALUES = (0.0, 0.5) if SMALL else (0.0, 0.0999, 0.1, 0.5)  # around the diversity threshold 0.1
NP, NC, ND = len(PREV_VALUES), len(CUR_VALUES), len(DIV_VALUES)


def pick(values, i):
    for k, v in enumerate(values):
        if i == k:
            return v
    raise IgnoreAttempt("index")


def run_A(trace, abandon):
    """drive the real generate() of A; its generation loop is replaced by the extracted adaptive block"""
    seen = []
    # CrossHair's symbolic floats (precise IEEE model) make even (c - p) / p < 0.005 cost minutes per query:
    # the three inputs are indices into stated finite sets chosen around the tuner's two thresholds
    trace = [(pick(PREV_VALUES, p), pick(CUR_VALUES, c), pick(DIV_VALUES, d)) for p, c, d in trace]

    def fake_generate_simple(max_generations=None):
        prev = 0.0
        for g, (p, c, d) in enumerate(trace):
            A.evaluator.compute_diversity_bonus = lambda population, fill_up=None, d=d: [d]
            ns = {"self": A, "generation": g + 1, "prev_best_fitness": p, "current_best_fitness": c}
            exec(BLOCK, {}, ns)
            seen.append(nodes_mod.MAX_REPETITIONS)
            yield DerivationTree(NonTerminal("<start>"))

    A._generate_simple = fake_generate_simple
    A.adaptive_tuner.reset_parameters()
    gen = A.generate(max_generations=len(trace))
    n = 0
    for _ in gen:
        n += 1
        if abandon and n == 1:
            break
    if abandon:
        gen.close()
    return seen


def no_leak(prevs: List[int], curs: List[int], divs: List[int], abandon: bool) -> bool:
    """
    pre: 1 <= len(prevs) <= NGEN and len(curs) == len(prevs) and len(divs) == len(prevs)
    pre: all(0 <= x < NP for x in prevs) and all(0 <= x < NC for x in curs) and all(0 <= x < ND for x in divs)
    post: _
    """
    exclude_known("no_leak", prevs=prevs, curs=curs, divs=divs, abandon=abandon)
    nodes_mod.MAX_REPETITIONS = INITIAL_CAP
    before = observables()
    run_A(list(zip(prevs, curs, divs)), abandon)
    after = observables()
    ok = before == after
    nodes_mod.MAX_REPETITIONS = INITIAL_CAP
    return ok


def reach(prevs: List[int], curs: List[int], divs: List[int], abandon: bool) -> bool:
    """
    pre: 1 <= len(prevs) <= NGEN and len(curs) == len(prevs) and len(divs) == len(prevs)
    pre: all(0 <= x < NP for x in prevs) and all(0 <= x < NC for x in curs) and all(0 <= x < ND for x in divs)
    post: _
    """
    # twin: the tuner did raise the cap during the run
    nodes_mod.MAX_REPETITIONS = INITIAL_CAP
    seen = run_A(list(zip(prevs, curs, divs)), abandon)
    r = not (len(seen) > 0 and max(seen) > INITIAL_CAP)
    nodes_mod.MAX_REPETITIONS = INITIAL_CAP
    return r


def obs(prevs, curs, divs, abandon):
    nodes_mod.MAX_REPETITIONS = INITIAL_CAP
    before = observables()
    seen = run_A(list(zip(prevs, curs, divs)), abandon)
    after = observables()
    nodes_mod.MAX_REPETITIONS = INITIAL_CAP
    return before, seen, after


CONFORMANCE = [("obs", [[1], [1], [0], False]), ("obs", [[1, 0], [2, 2], [1, 0], False]),
               ("obs", [[1, 1], [0, 0], [0, 0], True]), ("obs", [[0], [2], [1], False])]


# ---- parse results of one spec object do not depend on activity of another one ---------------------
SPEC_A2 = '<start> ::= "ab" r"." "cd" | "x"{2,}\n'
SPEC_B2 = '<start> ::= "ab" "." "cd" | "x"{2,}\n'
WORDS2 = ["ab-cd", "ab.cd", "xxx"]
NSEQ = int(os.environ.get("H_SEQ", "3"))


def _accepts(g, w):
    return len(list(g.parse_forest(w))) > 0


# expected answers written down from the two languages (NOT computed with the code under test: a leak between
# spec objects would contaminate an expectation computed in this very process)
_EXPECT = {(0, "ab-cd"): True, (0, "ab.cd"): True, (0, "xxx"): True, (1, "ab-cd"): False, (1, "ab.cd"): True, (1, "xxx"): True}
GA2, GB2 = load(SPEC_A2), load(SPEC_B2)


def parse_isolation(ops: List[int]) -> bool:
    """
    pre: len(ops) <= NSEQ and all(0 <= o < 6 for o in ops)
    post: _
    """
    # a symbolic sequence of parse requests on two long-lived spec objects whose terminals have the same
    # text (regex vs literal); every answer must equal the answer of a spec object without any history
    exclude_known("parse_isolation", ops=ops)
    for o in ops:
        s, w = (0, o) if o < 3 else (1, o - 3)
        g = GA2 if s == 0 else GB2
        if _accepts(g, WORDS2[w]) != _EXPECT[(s, WORDS2[w])]:
            return False
    return True


def reach_parse(ops: List[int]) -> bool:
    """
    pre: len(ops) <= NSEQ and all(0 <= o < 6 for o in ops)
    post: _
    """
    return not (len(ops) == NSEQ and ops[0] == 0 and ops[-1] == 3)


def obs2(ops):
    out = []
    for o in ops:
        s, w = (0, o) if o < 3 else (1, o - 3)
        out.append(_accepts(GA2 if s == 0 else GB2, WORDS2[w]))
    return out


CONFORMANCE += [("obs2", [[0, 3, 1, 4]]), ("obs2", [[3, 0, 5, 2]]), ("parse_isolation", [[0, 3, 1]]), ("parse_isolation", [[3, 0, 4]]), ("parse_isolation", [[1, 4, 0]])]
