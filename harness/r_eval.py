"""Native driver of the REAL Evaluator with stub constraint objects (used for translator validation
and for replaying E2 counterexamples).  argv[1]: JSON {"cases": [{"h": [[solved,total,raises],..],
"r": [...]}, ...], "io": bool} -> prints EVAL=[{"fitness": hex, "yielded": n}, ...]"""
import json
import sys

from engine.hshim import *  # noqa
from fandango.constraints.constraint import Constraint
from fandango.constraints.repetition_bounds import RepetitionBoundsConstraint
from fandango.constraints.fitness import ConstraintFitness
from fandango.constraints.failing_tree import NopSuggestion
from fandango.evolution.evaluation import Evaluator, IoEvaluator
from fandango.evolution import GeneratorWithReturn
from fandango.language.tree import DerivationTree
from fandango.language.symbols import NonTerminal, Terminal


class StubHard(Constraint):
    def __init__(self, solved, total, raises):
        super().__init__()
        self.s, self.t, self.raises = solved, total, raises

    def fitness(self, tree, scope=None, local_variables=None):
        if self.raises:
            raise ValueError("stub constraint raises")
        return ConstraintFitness(self.s, self.t, self.s == self.t, NopSuggestion())

    def accept(self, visitor):
        pass

    def format_as_spec(self):
        return "stub"

    def invert(self):
        return self


class StubRep(RepetitionBoundsConstraint):
    def __init__(self, solved, total, raises):
        Constraint.__init__(self)
        self.s, self.t, self.raises = solved, total, raises

    def fitness(self, tree, scope=None, local_variables=None):
        if self.raises:
            raise ValueError("stub constraint raises")
        return ConstraintFitness(self.s, self.t, self.s == self.t, NopSuggestion())

    def format_as_spec(self):
        return "stubrep"


def run_case(case, io=False, order=None):
    cons = [StubHard(*c) for c in case["h"]] + [StubRep(*c) for c in case["r"]]
    if order == "rep_first":
        cons = cons[len(case["h"]):] + cons[:len(case["h"])]
    elif order == "interleaved":
        hs, rs = cons[:len(case["h"])], cons[len(case["h"]):]
        cons = [x for pair in zip(hs, rs) for x in pair] + hs[len(rs):] + rs[len(hs):]
    cls = IoEvaluator if io else Evaluator
    ev = cls(None, cons, 1.0, 0, 0.0)
    tree = DerivationTree(NonTerminal("<start>"), [DerivationTree(Terminal("a"))])
    g = GeneratorWithReturn(ev.evaluate_individual(tree))
    ys, ret = g.collect()
    return {"fitness": float(ret[0]).hex(), "yielded": len(ys)}


if __name__ == "__main__":
    req = json.loads(sys.argv[1]) if not sys.argv[1].startswith("@") else json.load(open(sys.argv[1][1:]))
    out = [run_case(c, req.get("io", False), c.get("order")) for c in req["cases"]]
    print("EVAL=" + json.dumps(out))
    if req.get("expect_all_yield"):
        sys.exit(0 if all(o["yielded"] for o in out) else 1)
