"""C07 / C02(b) / C11: real constraint objects (read by the real spec reader at import) evaluated on
symbolic derivation trees, against a reference evaluator written from the documentation.

Parameters: H_PROG = index into PROGRAMS.
Symbolic: r1, r2 - the two records of the tree as strings over the leaf alphabet "05a"
(r = key char + 1..2 value chars; r2 may be empty = single record).  Leaf contents are realised
when Fandango hashes the tree, so the engine exhausts the alphabet by path splitting.
Reference semantics (harness-owned traversal, no search.py code): a constraint holds iff its Python
expression is truthy for EVERY combination of matches (one per symbol occurrence); a raising
combination fails it; no match = nothing to violate; exists over nothing is false; and/or combine
separately quantified operands; lazy evaluation gives the same verdict.
"""
import os
from typing import List

from harness.common import *  # noqa
from fandango.evolution.evaluation import Evaluator
from fandango.evolution import GeneratorWithReturn

GRAMMAR = '''<start> ::= <rec> | <rec> ";" <rec>
<rec> ::= <k> "=" <v>+ <flag>?
<flag> ::= "!"
<k> ::= <d>
<v> ::= <d>
<d> ::= "0" | "5" | "a"
'''
ALPHA = "05a"
NT = NonTerminal


# ---- reference selectors (own traversal) ---------------------------------------------------------
def nodes_of(t, sym):
    """all nodes with nonterminal `sym`, pre-order... Fandango lists matches children-first; order is
    irrelevant for verdicts"""
    out = []
    for c in t.children:
        out.extend(nodes_of(c, sym))
    if t.symbol.is_non_terminal and t.symbol.name() == sym:
        out.append(t)
    return out


def sel_sym(sym):
    return lambda t: nodes_of(t, sym)


def sel_child(a, b):
    return lambda t: [c for n in nodes_of(t, a) for c in n.children if c.symbol.is_non_terminal and c.symbol.name() == b]


def sel_desc(a, b):
    def f(t):
        out = []
        for n in nodes_of(t, a):
            for c in n.children:
                out.extend(nodes_of(c, b))
        return out
    return f


def sel_idx(a, i):
    def f(t):
        out = []
        for n in nodes_of(t, a):
            out.append(n.children[i])  # IndexError would be a raising match; not used out of range
        return out
    return f


def sel_slice(a, lo, hi):
    return lambda t: [list(n.children[lo:hi]) for n in nodes_of(t, a)]


def star(sel):
    return lambda t: [sel(t)]  # one combination: the list of all matches


def count(sel):
    return lambda t: [len(sel(t))]


def truthy_all(sels, fn):
    """reference atom: every combination truthy; raising = failing"""
    def ev(t, env):
        pools = [s(t) if callable(s) else s for s in sels]
        def rec(i, acc):
            if i == len(pools):
                try:
                    return bool(fn(*acc, **env))
                except Exception:
                    return False
            for m in pools[i]:
                if not rec(i + 1, acc + [m]):
                    return False
            return True
        return rec(0, [])
    return ev


def AND(*ps):
    return lambda t, env: all(p(t, env) for p in ps)


def OR(*ps):
    return lambda t, env: any(p(t, env) for p in ps)


def FORALL(var, sel, body):
    """forall <var> in sel: body   (body sees the bound node under env[var])"""
    return lambda t, env: all(body(t, dict(env, **{var: m})) for m in sel(t, env))


def EXISTS(var, sel, body):
    return lambda t, env: any(body(t, dict(env, **{var: m})) for m in sel(t, env))


def kids_of(n, sym):
    return [c for c in n.children if c.symbol.is_non_terminal and c.symbol.name() == sym]


def atom_env(pools_fn, fn):
    """atom whose match pools depend on the bound variables"""
    def ev(t, env):
        return truthy_all(pools_fn(env), fn)(t, {})
    return ev


def S(x):
    return str(x)


def I(x):
    return int(str(x))


def within(var, getter):
    """selector relative to a bound variable"""
    return lambda t, env: getter(env[var])


def top(sel):
    return lambda t, env: sel(t)


# ---- the program family: (constraint text, reference) -------------------------------------------
PROGRAMS = [
    # plain symbols, conversions, raising combinations
    ('int(<k>) > 0', truthy_all([sel_sym("<k>")], lambda k: I(k) > 0)),
    ('int(<v>) <= int(<k>)', truthy_all([sel_sym("<v>"), sel_sym("<k>")], lambda v, k: I(v) <= I(k))),
    ('str(<k>) == str(<k>)', truthy_all([sel_sym("<k>"), sel_sym("<k>")], lambda a, b: S(a) == S(b))),
    ('str(<k>) != "a"', truthy_all([sel_sym("<k>")], lambda k: S(k) != "a")),
    ('int(<d>) % 5 == 0', truthy_all([sel_sym("<d>")], lambda d: I(d) % 5 == 0)),
    ('<k> == "5"', truthy_all([sel_sym("<k>")], lambda k: S(k) == "5")),
    # . and ..
    ('str(<rec>.<k>) == "5"', truthy_all([sel_child("<rec>", "<k>")], lambda k: S(k) == "5")),
    ('int(<rec>..<d>) >= 0', truthy_all([sel_desc("<rec>", "<d>")], lambda d: I(d) >= 0)),
    ('str(<v>.<d>) != str(<k>.<d>)', truthy_all([sel_child("<v>", "<d>"), sel_child("<k>", "<d>")], lambda a, b: S(a) != S(b))),
    ('str(<rec>.<flag>) == "?"', truthy_all([sel_child("<rec>", "<flag>")], lambda k: S(k) == "?")),  # no match: nothing to violate
    # indexing / slices
    ('str(<rec>[0]) != "a"', truthy_all([sel_idx("<rec>", 0)], lambda n: S(n) != "a")),
    ('len(<rec>[2:]) >= 2', truthy_all([sel_slice("<rec>", 2, None)], lambda ns: len(ns) >= 2)),
    ('str(<rec>[-1]) == "5"', truthy_all([sel_idx("<rec>", -1)], lambda n: S(n) == "5")),
    ('len(<rec>[1:2]) == 1', truthy_all([sel_slice("<rec>", 1, 2)], lambda ns: len(ns) == 1)),
    # * and |...|
    ('len(*<v>) == 2', truthy_all([count(sel_sym("<v>"))], lambda n: n == 2)),
    ('|<rec>| == 2', truthy_all([count(sel_sym("<rec>"))], lambda n: n == 2)),
    ('len(*<rec>.<v>) >= 3', truthy_all([count(sel_child("<rec>", "<v>"))], lambda n: n >= 3)),
    # comprehensions / quantifiers
    ('all(int(x) > 0 for x in *<v>)', FORALL("x", top(sel_sym("<v>")), truthy_all([], lambda x: I(x) > 0))),
    ('any(str(x) == "a" for x in *<rec>..<d>)', EXISTS("x", top(sel_desc("<rec>", "<d>")), truthy_all([], lambda x: S(x) == "a"))),
    ('forall <r> in <rec>: str(<r>.<k>) == "5"',
     FORALL("r", top(sel_sym("<rec>")), atom_env(lambda env: [kids_of(env["r"], "<k>")], lambda k: S(k) == "5"))),
    ('exists <x> in <v>: str(<x>) == "5"', EXISTS("x", top(sel_sym("<v>")), truthy_all([], lambda x: S(x) == "5"))),
    ('forall <r> in <rec>: exists <x> in <r>.<v>: str(<x>) == "5"',
     FORALL("r", top(sel_sym("<rec>")), EXISTS("x", within("r", lambda r: [c for c in r.children if c.symbol.is_non_terminal and c.symbol.name() == "<v>"]),
                                               truthy_all([], lambda x, r=None: S(x) == "5")))),
    ('exists <r> in <rec>: forall <x> in <r>..<d>: int(<x>) >= 5',
     EXISTS("r", top(sel_sym("<rec>")), FORALL("x", within("r", lambda r: [m for c in r.children for m in nodes_of(c, "<d>")]),
                                               truthy_all([], lambda x, r=None: I(x) >= 5)))),
    # and / or / not
    ('str(<k>) == "5" and str(<v>) != "a"', AND(truthy_all([sel_sym("<k>")], lambda k: S(k) == "5"), truthy_all([sel_sym("<v>")], lambda v: S(v) != "a"))),
    ('str(<k>) == "5" or str(<v>) == "5"', OR(truthy_all([sel_sym("<k>")], lambda k: S(k) == "5"), truthy_all([sel_sym("<v>")], lambda v: S(v) == "5"))),
    ('not (str(<k>) == "a")', truthy_all([sel_sym("<k>")], lambda k: not (S(k) == "a"))),
    ('str(<k>) == "a" or (str(<k>) == "5" and int(<v>) >= 5)',
     OR(truthy_all([sel_sym("<k>")], lambda k: S(k) == "a"), AND(truthy_all([sel_sym("<k>")], lambda k: S(k) == "5"), truthy_all([sel_sym("<v>")], lambda v: I(v) >= 5)))),
    # a free symbol next to a quantifier that binds the same symbol (scope must not leak)
    ('all(str(x) != "a" for x in *<v>) and str(<v>) != "0"',
     AND(FORALL("x", top(sel_sym("<v>")), truthy_all([], lambda x: S(x) != "a")), truthy_all([sel_sym("<v>")], lambda v: S(v) != "0"))),
    # expression (not comparison) constraints whose evaluation raises for some combinations
    ('bool(int(<k>) + 1)', truthy_all([sel_sym("<k>")], lambda k: bool(I(k) + 1))),
    ('str(int(<v>)).isdigit()', truthy_all([sel_sym("<v>")], lambda v: str(I(v)).isdigit())),
    # multiplicity of .. matches (structurally identical descendants are distinct matches)
    ('len(*<v>..<d>) == 2', truthy_all([count(sel_desc("<v>", "<d>"))], lambda n: n == 2)),
    # existential quantification over a selection that is empty
    ('exists <x> in <rec>.<flag>: str(<x>) == "!"', EXISTS("x", top(sel_child("<rec>", "<flag>")), truthy_all([], lambda x: S(x) == "!"))),
    ('any(str(x) != "?" for x in *<rec>.<flag>)', EXISTS("x", top(sel_child("<rec>", "<flag>")), truthy_all([], lambda x: S(x) != "?"))),
    # a quantifier body that also mentions a FREE symbol (inner memo keys must still depend on the tree)
    ('forall <x> in <v>: str(<x>) != str(<k>)',
     FORALL("x", top(sel_sym("<v>")), lambda t, env: truthy_all([sel_sym("<k>")], lambda k, x=None: S(env["x"]) != S(k))(t, {}))),
    # slices with boundary values
    ('len(<rec>[0:0]) == 0', truthy_all([sel_slice("<rec>", 0, 0)], lambda ns: len(ns) == 0)),
    ('len(<rec>[2:0]) == 0', truthy_all([sel_slice("<rec>", 2, 0)], lambda ns: len(ns) == 0)),
    ('len(<rec>[0:3:2]) == 2', truthy_all([lambda t: [list(n.children[0:3:2]) for n in nodes_of(t, "<rec>")]], lambda ns: len(ns) == 2)),
    ('any(str(v) == "5" for v in *<rec>..<v>) and int(<v>) >= 0',
     AND(EXISTS("x", top(sel_desc("<rec>", "<v>")), truthy_all([], lambda x: S(x) == "5")), truthy_all([sel_sym("<v>")], lambda v: I(v) >= 0))),
]

PROG = int(os.environ.get("H_PROG", "0"))
TEXT, REF = PROGRAMS[PROG]
Gc, CS = load_with_constraints(GRAMMAR + "where " + TEXT + "\n")
C_EAGER = CS[0]
_, CS_L = parse(GRAMMAR + "where " + TEXT + "\n", use_stdlib=False, use_cache=False, lazy=True)
C_LAZY = CS_L[0]


# "brand-new" comparison objects: separate constraint objects read from the same text at import
# (the spec reader cannot run inside a traced function); their caches are emptied before every use
_FRESH = [load_with_constraints(GRAMMAR + "where " + TEXT + "\n")[1][0] for _ in range(2)]
_fresh_i = [0]


# C15: the constraint as printed by format_as_spec() and read back (None if the reader rejects the printed text;
# those cases are handled by the probe in checks/C15.py)
PRINTED_TEXT = C_EAGER.format_as_spec()
try:
    C_PRINTED = load_with_constraints(GRAMMAR + "where " + PRINTED_TEXT + "\n")[1][0]
except Exception:
    C_PRINTED = None


def print_roundtrip(r1: str, r2: str) -> bool:
    """
    pre: 2 <= len(r1) <= 3 and len(r2) <= MAXR2 and len(r2) != 1
    pre: all(c in ALPHA for c in r1) and all(c in ALPHA for c in r2)
    post: _
    """
    exclude_known("print_roundtrip", r1=r1, r2=r2, PROG=PROG, TEXT=TEXT)
    if C_PRINTED is None:
        return False
    tree = mk_tree(r1, r2)
    clear_caches(C_EAGER)
    clear_caches(C_PRINTED)
    return C_EAGER.check(tree) == C_PRINTED.check(tree)


def fresh():
    c = _FRESH[_fresh_i[0] % 2]
    _fresh_i[0] += 1
    clear_caches(c)
    if hasattr(c, "_types_checked"):
        c._types_checked = False
    return c


def mk_rec(r):
    def d(c):
        return DerivationTree(NT("<d>"), [DerivationTree(Terminal(c))])
    kids = [DerivationTree(NT("<k>"), [d(r[0])]), DerivationTree(Terminal("="))]
    for c in r[1:]:
        kids.append(DerivationTree(NT("<v>"), [d(c)]))
    return DerivationTree(NT("<rec>"), kids)


def mk_tree(r1, r2):
    kids = [mk_rec(r1)]
    if len(r2) > 0:
        kids += [DerivationTree(Terminal(";")), mk_rec(r2)]
    return DerivationTree(NT("<start>"), kids)


def clear_caches(c):
    seen = set()

    def rec(x):
        if id(x) in seen:
            return
        seen.add(id(x))
        if hasattr(x, "cache"):
            x.cache.clear()
        for attr in ("statement", "antecedent", "consequent"):
            if hasattr(x, attr):
                rec(getattr(x, attr))
        for sub in getattr(x, "constraints", []) or []:
            rec(sub)
    rec(c)


def yields(c, tree):
    ev = Evaluator(Gc, [c], 1.0, 0, 0.0)
    g = GeneratorWithReturn(ev.evaluate_individual(tree))
    ys, ret = g.collect()
    return len(ys), ret[0]


PRE = "len(r1) in (2, 3) and len(r2) in (0, 2, 3)"


def verdict(r1: str, r2: str) -> bool:
    """
    pre: 2 <= len(r1) <= 3 and len(r2) <= MAXR2 and len(r2) != 1
    pre: all(c in ALPHA for c in r1) and all(c in ALPHA for c in r2)
    post: _
    """
    exclude_known("verdict", r1=r1, r2=r2, PROG=PROG, TEXT=TEXT)
    tree = mk_tree(r1, r2)
    want = REF(tree, {})
    clear_caches(C_EAGER)
    clear_caches(C_LAZY)
    if C_EAGER.check(tree) != want:
        return False
    if C_LAZY.check(tree) != want:
        return False
    fit = C_EAGER.fitness(tree)
    if fit.success != want:
        return False
    if not want and not (fit.fitness() < 1.0):
        return False
    n, f = yields(C_EAGER, tree)
    # emitted exactly when the constraint holds (C02: never when violated or raising; C03: always when satisfied)
    return (n == 1) == want


MAXR2 = int(os.environ.get("H_R2", "3"))
MINR1 = int(os.environ.get("H_R1MIN", "2"))


AGAIN = os.environ.get("H_AGAIN", "0") == "1"


def cached_equals_fresh(r1: str, r2: str, pos: int, ch: str) -> bool:
    """
    pre: MINR1 <= len(r1) <= 3 and len(r2) <= MAXR2 and len(r2) != 1
    pre: all(c in ALPHA for c in r1) and all(c in ALPHA for c in r2)
    pre: 0 <= pos < len(r1) + len(r2) and len(ch) == 1 and ch in ALPHA
    post: _
    """
    # C11: one long-lived constraint object + evaluator sees tree A, then tree B (A with one leaf
    # replaced, optionally the SAME object edited in place), possibly A again; every answer must equal
    # the answer of brand-new objects
    again = AGAIN
    exclude_known("cached_equals_fresh", r1=r1, r2=r2, pos=pos, ch=ch, again=again, PROG=PROG, TEXT=TEXT)
    c = C_EAGER
    clear_caches(c)
    ev = Evaluator(Gc, [c], 1.0, 0, 0.0)
    a = mk_tree(r1, r2)

    def observe(evaluator, cons, t):
        g = GeneratorWithReturn(evaluator.evaluate_individual(t))
        ys, ret = g.collect()
        fit = cons.fitness(t)
        return (len(ys), ret[0], fit.success, fit.solved, fit.total, sorted(repr(ft.tree) for ft in ret[1]))

    def fresh_obs(t):
        fc = fresh()
        return observe(Evaluator(Gc, [fc], 1.0, 0, 0.0), fc, t)

    if observe(ev, c, a) != fresh_obs(mk_tree(r1, r2)):
        return False
    whole = r1 + r2
    edited = whole[:pos] + ch + whole[pos + 1:]
    e1, e2 = edited[:len(r1)], edited[len(r1):]
    if again:
        # in-place edit of the already evaluated tree object: replace the leaf below the pos-th <d>
        ds = nodes_of_order(a, "<d>")
        ds[pos].set_children([DerivationTree(Terminal(ch))])
        b = a
    else:
        b = mk_tree(e1, e2)
    got = observe(ev, c, b)
    want = fresh_obs(mk_tree(e1, e2))
    if got[1:] != want[1:]:
        return False
    # yielded count: a tree equal to one already emitted is not emitted twice by design
    return True


def nodes_of_order(t, sym):
    out = []
    if t.symbol.is_non_terminal and t.symbol.name() == sym:
        out.append(t)
    for c in t.children:
        out.extend(nodes_of_order(c, sym))
    return out


def reach(r1: str, r2: str) -> bool:
    """
    pre: 2 <= len(r1) <= 3 and len(r2) <= MAXR2 and len(r2) != 1
    pre: all(c in ALPHA for c in r1) and all(c in ALPHA for c in r2)
    post: _
    """
    # twin: both verdicts are reachable on two-record trees -> refuted twice is too strong for one twin;
    # this one asks for a SATISFIED two-record tree (programs that can never hold with two records use reach_false)
    tree = mk_tree(r1, r2)
    clear_caches(C_EAGER)
    return not (C_EAGER.check(tree) and len(r2) >= 2) if WANT_TRUE else not ((not C_EAGER.check(tree)) and len(r2) >= 2)


WANT_TRUE = os.environ.get("H_REACH_TRUE", "1") == "1"


def obs(prog, r1, r2):
    text, ref = PROGRAMS[prog]
    g, cs = CONF[prog]
    t = mk_tree(r1, r2)
    c = cs[0]
    clear_caches(c)
    fit = c.fitness(t)
    return c.check(t), fit.success, fit.solved, fit.total, ref(t, {})


CONF = {}
CONFORMANCE = []
if os.environ.get("VERIF_CONFORM"):
    for p in range(len(PROGRAMS)):
        CONF[p] = load_with_constraints(GRAMMAR + "where " + PROGRAMS[p][0] + "\n")
        for r1, r2 in (("50", ""), ("a5", "500"), ("0a5", "5a")):
            CONFORMANCE.append(("obs", [p, r1, r2]))
