"""Spec family F_parse and the independent reference semantics used as oracles.

Nothing in the reference functions calls Fandango's parser, generator, search or constraint code:
they read the grammar IR (node classes and their min/max/children attributes) and tree nodes
(symbol, children) only.
"""
from engine.hshim import *  # noqa: F401,F403  (path set-up first)
from engine import hshim

import fandango.language.grammar.nodes as nodes_mod
from fandango.language.parse.parse import parse
from fandango.language.grammar import ParsingMode
from fandango.language.grammar.parser.iterative_parser import IterativeParser
from fandango.language.grammar.nodes.alternative import Alternative
from fandango.language.grammar.nodes.concatenation import Concatenation
from fandango.language.grammar.nodes.repetition import Repetition, Star, Plus, Option
from fandango.language.grammar.nodes.non_terminal import NonTerminalNode
from fandango.language.grammar.nodes.terminal import TerminalNode
from fandango.language.symbols import NonTerminal, Terminal
from fandango.language.tree import DerivationTree
from fandango.language.tree_value import TreeValueType

# --------------------------------------------------------------------------------------------
# F_parse: small specs read by the real spec reader at import time
# --------------------------------------------------------------------------------------------
SPECS = {
    # 1: alternatives sharing prefixes (ambiguous segmentation)
    "prefix": '<start> ::= <a> <b>\n<a> ::= "x" | "xy"\n<b> ::= "z" | "yz"\n',
    # 2: list with separator, *, ?, +, {1,2}
    "list": '<start> ::= <item> ("," <item>)* ";"?\n<item> ::= "ab" | "a" <num>{1,2} | <item2>+\n<num> ::= "0" | "1"\n<item2> ::= "b"\n',
    # 3: nested repetitions
    "nested": '<start> ::= (<p>{1,2} "-"){1,2}\n<p> ::= "a"+ "b"?\n',
    # 4: ambiguous
    "amb": '<start> ::= <a> | <b>\n<a> ::= "x" | "y"\n<b> ::= "x"\n',
    # 5: left- and right-recursive
    "rec": '<start> ::= <l> "=" <r>\n<l> ::= <l> "a" | "a"\n<r> ::= "b" <r> | "b"\n',
    # 6: bytes literals
    "bytes": '<start> ::= <h> <t>*\n<h> ::= b"\\x01" | b"\\x01\\x02"\n<t> ::= b"\\xff" | b"\\x02"\n',
    # 7: bit level
    "bits": '<start> ::= <bit>{4} <nib> b"\\x01" | b"\\xff" <bit>{8}\n<nib> ::= <bit> <bit> <bit> <bit>\n<bit> ::= 0 | 1\n',
    # 8: non-ASCII / astral literals and a non-<start> start symbol
    "uni": '<start> ::= <w>+\n<w> ::= "\\xe9" | "\\u20ac" "x"? | "\\U0001f600"\n<alt> ::= "q" <w>\n',
    # 9: empty-deriving bodies under repetition (C06)
    "nullstar": '<start> ::= ("a"?)* "b"\n',
    "nullrule": '<start> ::= <e>* "b"\n<e> ::= "a" | ""\n',
    "starrep": '<start> ::= ("a"* "a"){2} "c"\n',
    "zeromin": '<start> ::= "a"{,1} "c" | "b"{0,2}\n',
    "nulltwice": '<start> ::= <e> <e> "b"\n<e> ::= "a" | ""\n',
    "nullopen": '<start> ::= ("a"?){2,} "b"\n',
    # regex terminals (finite-alphabet conditions only: the regex engines realise their subject)
    "rx1": '<start> ::= r"[ab]+" "c"\n',
    "rx2": '<start> ::= "x" r"[0-9]{2}" ("y" | r"[a-b]")\n',
    "rxe": '<start> ::= r"a*" "b"\n',
    "rxstar": '<start> ::= (r"a+" | "b")* "x"\n',
    "rxopt": '<start> ::= "x" r"[0-9]?" "y"\n',
    "rxuni": '<start> ::= r"[a-z\xe9]{3}" "!"\n',
    "rxnull": '<start> ::= r"a*"+ "b"\n',  # a regex that matches the empty string, under +
    "rxgen": '<start> ::= rb"[\\x7f-\\x81]{1,2}" b"!" r"[ab]?"\n',
    # a bytes regex with a whitespace class next to a control byte that only Unicode-aware matching treats as whitespace
    "rxws": '<start> ::= rb"[ab]\\s?" b"\\x1f" rb"[ab]\\s?" b"\\xa0"\n',
    "nullseq": '<start> ::= ("a"? "c")* "b"\n',
    "nullplus": '<start> ::= ("a"?)+ "b"\n',
    "nullnest": '<start> ::= ("a"*)* "b"\n',
    # 10: open-ended bound
    "open": '<start> ::= "a"{2,} "b"{,2}\n',
}


def load(name_or_text):
    text = SPECS.get(name_or_text, name_or_text)
    g, cs = parse(text, use_stdlib=False, use_cache=False)
    return g


def load_with_constraints(text):
    g, cs = parse(text, use_stdlib=False, use_cache=False)
    return g, cs


# --------------------------------------------------------------------------------------------
# real parser drivers (exactly what Parser._parse_forest does, minus the cache)
# --------------------------------------------------------------------------------------------
def iter_forest(G, word, start="<start>", mode=ParsingMode.COMPLETE):
    p = IterativeParser(G.rules)
    p.new_parse(start, mode)
    out = []
    for t, complete in p.consume(word):
        out.append(p.collapse(t))
    return out


def iter_forest_fragments(G, pieces, start="<start>", mode=ParsingMode.COMPLETE):
    """feed the pieces one after the other; return the complete parses reported by the LAST
    consume() call (what protocol mode looks at) and the can_continue() answers after each piece"""
    p = IterativeParser(G.rules)
    p.new_parse(start, mode)
    last = []
    cont = []
    for piece in pieces:
        last = []
        for t, complete in p.consume(piece):
            if complete:
                last.append(p.collapse(t))
        cont.append(p.can_continue())
    return last, cont


# --------------------------------------------------------------------------------------------
# reference 1: membership of a str word for grammars whose terminals are str literals
# --------------------------------------------------------------------------------------------
UNBOUNDED = 10**6
COMPUTED_REP_IDS = set()  # ids of {expr} repetitions (filled by harnesses from the spec's RepetitionBoundsConstraints)


def rep_bounds(node):
    """declared bounds of a repetition node: * and + are unbounded above"""
    if getattr(node, "bounds_constraint", None) is not None or node.id in COMPUTED_REP_IDS:
        return 0, UNBOUNDED  # computed bound {expr}: the count is the business of the generated constraint (C02)
    if isinstance(node, (Star, Plus)):
        return node.min, UNBOUNDED
    hi = node.internal_max
    if hi is None:
        hi = nodes_mod.MAX_REPETITIONS  # {n,}: the tool's documented cap
    return node.min, hi


def _lit(node):
    v = node.symbol.value()
    return v._value


def ends(G, node, w, i, depth=0):
    """set of j such that `node` derives w[i:j]; w: str (or bytes with bytes literals)"""
    # nesting of nonterminal expansions needed for a word of length n is at most (n+1)*|N|
    # (a longer chain repeats a nonterminal without consuming input and can be cut out)
    if depth > (len(w) + 1) * len(G.rules) + 1:
        return set()
    if isinstance(node, TerminalNode):
        if node.symbol.is_regex:
            # reference semantics of a regex terminal: any split (the property restricts the claim to
            # grammars whose regex terminals cannot be split in more than one way, which the family obeys)
            import re as _re

            pat = _lit(node)
            return {j for j in range(i, len(w) + 1) if _re.fullmatch(pat, w[i:j]) is not None}
        lit = _lit(node)
        n = len(lit)
        if i + n <= len(w) and w[i : i + n] == lit:
            return {i + n}
        return set()
    if isinstance(node, NonTerminalNode):
        return ends(G, G.rules[node.symbol], w, i, depth + 1)
    if isinstance(node, Alternative):
        r = set()
        for a in node.alternatives:
            r |= ends(G, a, w, i, depth)
        return r
    if isinstance(node, Concatenation):
        cur = {i}
        for c in node.nodes:
            nxt = set()
            for k in cur:
                nxt |= ends(G, c, w, k, depth)
            cur = nxt
            if not cur:
                break
        return cur
    if isinstance(node, Repetition):
        lo, hi = rep_bounds(node)
        cur = {i}
        res = set(cur) if lo == 0 else set()
        # iterations that consume nothing can be dropped from any derivation as long as `lo`
        # remain, so lo + len(w) iterations suffice
        for r in range(1, min(hi, lo + len(w)) + 1):
            nxt = set()
            for k in cur:
                nxt |= ends(G, node.node, w, k, depth)
            if r >= lo:
                res |= nxt
            if not nxt:
                break
            cur = nxt
        return res
    raise TypeError(node)


def member(G, w, start="<start>"):
    return len(w) in ends(G, G.rules[NonTerminal(start)], w, 0)


# --------------------------------------------------------------------------------------------
# reference 2: is `tree` a derivation of the grammar?  (children spell one expansion of the
# node's rule; repetition counts within declared bounds)
# --------------------------------------------------------------------------------------------
def leaf_matches(tnode, leaf):
    if not leaf.symbol.is_terminal or len(leaf.children) != 0:
        return False
    a = tnode.symbol.value()
    b = leaf.symbol.value()
    if tnode.symbol.is_regex:
        import re as _re

        pat, txt = a._value, b._value
        if isinstance(pat, bytes):
            return isinstance(txt, bytes) and _re.fullmatch(pat, txt) is not None
        return isinstance(txt, str) and _re.fullmatch(pat, txt) is not None
    for kind in (str, bytes):
        if isinstance(a._value, kind):
            return isinstance(b._value, kind) and a._value == b._value and a._trailing_bits == b._trailing_bits
    return a._value is None and b._value is None and a._trailing_bits == b._trailing_bits


def derives(G, node, kids, i, check_sub=True):
    """set of j such that `node` derives the child list kids[i:j]"""
    if isinstance(node, TerminalNode):
        if i < len(kids) and leaf_matches(node, kids[i]):
            return {i + 1}
        return set()
    if isinstance(node, NonTerminalNode):
        if (
            i < len(kids)
            and kids[i].symbol.is_non_terminal
            and kids[i].symbol == node.symbol
            and (not check_sub or valid(G, kids[i]))
        ):
            return {i + 1}
        return set()
    if isinstance(node, Alternative):
        r = set()
        for a in node.alternatives:
            r |= derives(G, a, kids, i, check_sub)
        return r
    if isinstance(node, Concatenation):
        cur = {i}
        for c in node.nodes:
            nxt = set()
            for k in cur:
                nxt |= derives(G, c, kids, k, check_sub)
            cur = nxt
            if not cur:
                break
        return cur
    if isinstance(node, Repetition):
        lo, hi = rep_bounds(node)
        cur = {i}
        res = set(cur) if lo == 0 else set()
        for r in range(1, min(hi, lo + len(kids)) + 1):
            nxt = set()
            for k in cur:
                nxt |= derives(G, node.node, kids, k, check_sub)
            if r >= lo:
                res |= nxt
            if not nxt:
                break
            cur = nxt
        return res
    raise TypeError(node)


def valid(G, tree):
    if not tree.symbol.is_non_terminal or tree.symbol not in G.rules:
        return False
    return len(tree.children) in derives(G, G.rules[tree.symbol], tree.children, 0)


def no_helper_symbols(tree):
    if tree.symbol.is_non_terminal:
        n = tree.symbol.name()
        if n.startswith("<__") or n.startswith("<*"):
            return False
    for c in tree.children:
        if not no_helper_symbols(c):
            return False
    return True


def leaves(tree):
    if not tree.children:
        return [tree] if tree.symbol.is_terminal else []
    out = []
    for c in tree.children:
        out.extend(leaves(c))
    return out


def text_of(tree):
    """in-order concatenation of str leaves (independent of TreeValue)"""
    return "".join(l.symbol.value()._value for l in leaves(tree))


def shape(tree):
    """structure without leaf contents: nested tuples of symbol names / leaf lengths"""
    if tree.symbol.is_terminal:
        v = tree.symbol.value()
        return ("T", len(v._value) if v._value is not None else -len(v._trailing_bits))
    return (tree.symbol.name(), tuple(shape(c) for c in tree.children))
