"""C09: str / bytes / bits views of a derivation tree = in-order concatenation of its leaves.

Symbolic: kinds - the leaf sequence (0 text leaf, 1 bytes leaf, 2 run of 8 bit leaves, 3 run of 4 bit
leaves), len <= H_ITEMS; text (over a stated alphabet spanning the UTF-8 length classes and the
Latin-1 boundary, len <= 2), raw (bytes over a stated alphabet, len <= 2), bits8 (8 symbolic bits);
split - where the flat leaf list is cut into two sibling subtrees (bit runs may span the cut);
order - the order in which the views are requested.
Oracle: written from the property text - per-leaf bit strings concatenated; bytes = bits grouped by 8,
defined iff every maximal bit run is a multiple of 8 long; string view of a tree with a binary leaf =
Latin-1 decoding of its bytes, of a pure text tree = the text.
"""
import os
from typing import List

from engine.hshim import *  # noqa
from fandango.language.tree import DerivationTree
from fandango.language.tree_value import TreeValue, TreeValueType
from fandango.language.symbols import NonTerminal, Terminal
from fandango.errors import FandangoConversionError

NI = int(os.environ.get("H_ITEMS", "3"))
NORD = int(os.environ.get("H_ORDER", "3"))
TEXT_ALPHA = os.environ.get("H_TEXT", "a\xe9€\U0001f600")  # 1-, 2-, 3-, 4-byte UTF-8; inside/outside Latin-1
RAW_ALPHA = tuple(int(x, 16) for x in os.environ.get("H_RAW", "61,e9").split(","))
NT = int(os.environ.get("H_TLEN", "1"))
WHICH = int(os.environ.get("H_WHICH", "2"))
FIXED_KINDS = [int(x) for x in os.environ["H_KINDS"].split(",")] if os.environ.get("H_KINDS") else None  # leaf sequence fixed per condition
ORD_TEXT = "a\xe9€"
ORD_RAW = (0x61, 0xE9)
PATTERNS = ([False] * 8, [True, False, True, False, False, True, False, True], [True] * 8)


def leaf_specs(kinds, text, raw, bits8):
    """list of ('t', str) | ('r', bytes) | ('b', 0/1)"""
    out = []
    for k in kinds:
        if k == 0:
            out.append(("t", text))
        elif k == 1:
            out.append(("r", raw))
        elif k == 2:
            for b in bits8:
                out.append(("b", 1 if b else 0))
        else:
            for b in bits8[:4]:
                out.append(("b", 1 if b else 0))
    return out


FULL_SPLIT = os.environ.get("H_SPLITS") == "all"
NSPLIT = 20 if FULL_SPLIT else 3


def pick_split(sel, n):
    """-1 = flat tree; otherwise a cut position in the flat leaf list.  Quick tier: cut after the
    first leaf, inside the first bit run (position 3), before the last leaf, at the end."""
    if sel < 0:
        return -1
    if FULL_SPLIT:
        if sel > n:
            raise IgnoreAttempt("split")
        return sel
    pos = (1, 3, n - 1, n)[sel]
    if pos < 0 or pos > n:
        raise IgnoreAttempt("split")
    return pos


def build(specs, split):
    def leaf(s):
        return DerivationTree(Terminal(s[1]))

    if split < 0:
        return DerivationTree(NonTerminal("<start>"), [leaf(s) for s in specs])
    left = DerivationTree(NonTerminal("<l>"), [leaf(s) for s in specs[:split]])
    right = DerivationTree(NonTerminal("<r>"), [DerivationTree(NonTerminal("<rr>"), [leaf(s) for s in specs[split:]])])
    return DerivationTree(NonTerminal("<start>"), [left, right])


# ---- oracle ------------------------------------------------------------------------------------
def ref_bits(specs):
    out = ""
    for kind, v in specs:
        if kind == "t":
            out += "".join(format(b, "08b") for b in v.encode("utf-8"))
        elif kind == "r":
            out += "".join(format(b, "08b") for b in v)
        else:
            out += "1" if v else "0"
    return out


def ref_aligned(specs):
    run = 0
    for kind, v in specs:
        if kind == "b":
            run += 1
        else:
            if run % 8 != 0:
                return False
            run = 0
    return run % 8 == 0


def ref_interior_aligned(specs):
    """every bit run that is FOLLOWED by a text/bytes leaf is a multiple of 8 long"""
    run = 0
    for kind, v in specs:
        if kind == "b":
            run += 1
        else:
            if run % 8 != 0:
                return False
            run = 0
    return True


def ref_bytes(specs):
    bits = ref_bits(specs)
    return bytes(int(bits[i:i + 8], 2) for i in range(0, len(bits), 8))


def ref_binary(specs):
    return any(kind != "t" for kind, v in specs)


def ref_str(specs):
    if not ref_binary(specs):
        return "".join(v for kind, v in specs)
    return ref_bytes(specs).decode("latin-1")


def view(tree, which):
    """('ok', value) or ('err', exception class name)"""
    try:
        if which == 0:
            return ("ok", tree.to_bits())
        if which == 1:
            return ("ok", tree.to_bytes())
        if which == 2:
            return ("ok", tree.to_string())
        if which == 3:
            return ("ok", bytes(tree))
        if which == 5:
            return ("ok", int(tree))
        return ("ok", str(tree))
    except FandangoConversionError:
        return ("err", "FandangoConversionError")


def expected(specs, which):
    if which == 5:
        # int view: defined here for trees that consist of bit leaves only (the binary number they spell)
        if len(specs) == 0 or any(kind != "b" for kind, v in specs):
            raise IgnoreAttempt("int view only for bit-only trees")
        return ("ok", int(ref_bits(specs), 2))
    if len(specs) == 0:
        return ("ok", "" if which in (0, 2, 4) else b"")
    if which == 0:
        if not ref_interior_aligned(specs):
            return ("err", "FandangoConversionError")
        return ("ok", ref_bits(specs))
    if not ref_aligned(specs):
        return ("err", "FandangoConversionError")
    if which in (1, 3):
        return ("ok", ref_bytes(specs))
    return ("ok", ref_str(specs))


def leaf_state(tree):
    out = []
    for n in tree.flatten():
        if n.symbol.is_terminal:
            v = n.symbol.value()
            out.append((v._value, tuple(v._trailing_bits)))
    return out


PRE = """
    pre: len(kinds) <= NI and all(0 <= k <= 3 for k in kinds)
    pre: len(text) <= 2 and all(c in TEXT_ALPHA for c in text)
    pre: len(raw) <= 2 and all(b in RAW_ALPHA for b in raw)
    pre: len(bits8) == 8
"""


def views_match(kinds: List[int], text: str, raw: bytes, pat: int, split: int) -> bool:
    """
    pre: len(kinds) <= NI and all(0 <= k <= 3 for k in kinds)
    pre: len(text) <= NT and all(c in TEXT_ALPHA for c in text)
    pre: len(raw) <= 1 and all(b in RAW_ALPHA for b in raw)
    pre: 0 <= pat <= 2 and -1 <= split <= NSPLIT
    post: _
    """
    exclude_known("views_match", kinds=kinds, text=text, raw=raw, pat=pat, split=split, which=WHICH)
    if FIXED_KINDS is not None:
        if len(kinds) != 0:
            raise IgnoreAttempt("kinds fixed by H_KINDS")
        kinds = FIXED_KINDS
    bits8 = PATTERNS[0] if pat == 0 else PATTERNS[1] if pat == 1 else PATTERNS[2]
    specs = leaf_specs(kinds, text, raw, bits8)
    split = pick_split(split, len(specs))
    tree = build(specs, split)
    want = expected(specs, WHICH)  # first: it rejects inputs for which the view is not defined
    return view(tree, WHICH) == want


FIRST = int(os.environ.get("H_FIRST", "2"))


def order_independent(kinds: List[int], text: str, raw: bytes, nested: bool, later: List[int]) -> bool:
    """
    pre: 1 <= len(kinds) <= NI and all(0 <= k <= 3 for k in kinds)
    pre: len(text) == 1 and text in ORD_TEXT
    pre: len(raw) == 1 and raw[0] in ORD_RAW
    pre: 1 <= len(later) <= NORD - 1 and all(0 <= o <= 3 for o in later)
    post: _
    """
    # request 3 = int() (only on bit-only trees)
    # the first request is fixed per condition (H_FIRST: 0 bits, 1 bytes, 2 string), the later ones symbolic
    order = [FIRST] + list(later)
    exclude_known("order_independent", kinds=kinds, text=text, raw=raw, nested=nested, order=order)
    bits8 = PATTERNS[1]
    specs = leaf_specs(kinds, text, raw, bits8)
    tree = build(specs, 1 if nested else -1)
    before = leaf_state(tree)
    try:
        shared = tree.value()  # one TreeValue object asked repeatedly
    except FandangoConversionError:
        return not ref_interior_aligned(specs)
    bits_only = all(kind == "b" for kind, v in specs)
    for o in order:
        if o == 3:
            if not bits_only:
                raise IgnoreAttempt("int view only for bit-only trees")
            o = 5
        fresh = view(build(specs, 1 if nested else -1), o)
        if view(tree, o) != fresh:
            return False
        if o == 5 and fresh != expected(specs, 5):
            return False
        if o == 5:
            continue  # int() is requested on the tree (the property's subject); a TreeValue that has already been
            # asked for bytes keeps the flushed bytes by design and has no binary-number view any more
        try:
            got = ("ok", shared.to_bits() if o == 0 else shared.to_bytes() if o == 1 else shared.to_string())
        except FandangoConversionError:
            got = ("err", "FandangoConversionError")
        if got != fresh:
            return False
    return leaf_state(tree) == before


def reach(kinds: List[int], text: str, raw: bytes, pat: int, split: int) -> bool:
    """
    pre: len(kinds) <= NI and all(0 <= k <= 3 for k in kinds)
    pre: len(text) <= NT and all(c in TEXT_ALPHA for c in text)
    pre: len(raw) <= 1 and all(b in RAW_ALPHA for b in raw)
    pre: 0 <= pat <= 2 and -1 <= split <= NSPLIT
    post: _
    """
    # twin: a non-ASCII text leaf followed by an aligned bit run that spans the sibling cut
    bits8 = PATTERNS[0] if pat == 0 else PATTERNS[1] if pat == 1 else PATTERNS[2]
    specs = leaf_specs(kinds, text, raw, bits8)
    split = pick_split(split, len(specs))
    tree = build(specs, split)
    r = view(tree, WHICH)
    return not (len(kinds) >= 2 and kinds[0] == 0 and kinds[1] == 2 and len(text) == 1 and text > "\x7f"
                and 2 <= split <= 8 and r[0] == "ok")


def obs(kinds, text, raw, bits8, split):
    specs = leaf_specs(kinds, text, raw, bits8)
    tree = build(specs, split)
    return [view(tree, w) for w in (2, 1, 0, 3, 4)], [expected(specs, w) for w in (0, 1, 2)]


B8 = [True, False, True, False, False, True, False, True]
CONFORMANCE = [
    ("obs", [[0, 2], "\xe9", b"", B8, 3]),
    ("obs", [[0, 1], "€", b"\xff\x00", B8, -1]),
    ("obs", [[3, 3, 0], "a", b"", B8, 5]),
    ("obs", [[3, 0], "a", b"", B8, 1]),
    ("obs", [[1, 2, 0], "\U0001f600", b"\x80", B8, 2]),
    ("obs", [[0, 0], "ab", b"", B8, 1]),
    ("obs", [[2], "", b"", B8, 0]),
]
