"""C12: the real `Parser` (cache included) under a symbolic history of parse-type requests.

Symbolic: ops - sequence (len <= H_OPS) of request codes; ws - index of the word each request uses
(words come from a finite per-spec list, so hashing the cache key only splits paths); the target word is
fixed per condition (H_TARGET).  After the history, parse_forest(target) on the SAME Parser
must equal the forest of a fresh Parser on the same grammar rules (tree reprs, in order), and the
origin_repetitions tags must agree up to renaming of the iteration counters.
"""
import os
from typing import List

from harness.common import *  # noqa
from fandango.language.grammar.parser.parser import Parser

SPEC = os.environ.get("H_SPEC", "amb")
NOPS = int(os.environ.get("H_OPS", "2"))
nodes_mod.MAX_REPETITIONS = 20
G = load(SPEC)
WORDS = {
    "amb": ["x", "y", "z"],
    "prefix": ["xyz", "xz", "xy", "x"],
    "list": ["ab,a0", "bb", "a01;", "a,"],
    "open": ["aab", "aaabb", "ab"],
    "rec": ["a=b", "aa=bb", "a="],
}[SPEC]
START2 = {"amb": "<a>", "prefix": "<a>", "list": "<item>", "open": "<start>", "rec": "<r>"}[SPEC]
NW = len(WORDS)


def norm_tags(tree, ren):
    out = []
    for nid, it, rep in tree.origin_repetitions:
        key = (nid, it)
        if key not in ren:
            ren[key] = len(ren)
        out.append((nid, ren[key], rep))
    return (tree.symbol.format_as_spec(), tuple(out), tuple(norm_tags(c, ren) for c in tree.children))


def forest_obs(p, w, start="<start>", mode=ParsingMode.COMPLETE):
    ren = {}
    return [(repr(t), norm_tags(t, ren)) for t in p.parse_forest(w, start, mode=mode)]


TARGET = int(os.environ.get("H_TARGET", "0"))
OP0 = int(os.environ.get("H_OP0", "-1"))  # >= 0: the first request is fixed (conditions run in parallel)


def apply_op(p, op, w, k=1):
    if op == 0:
        p.parse(w)  # first tree only
    elif op == 1:
        for _ in p.parse_forest(w):
            pass
    elif op == 2:
        g = p.parse_forest(w)  # abandoned after k trees
        for _ in range(k):
            if next(g, None) is None:
                break
    elif op == 3:
        for _ in p.parse_multiple(w, mode=ParsingMode.INCOMPLETE):
            pass
    elif op == 4:
        p.parse(w, START2)  # other start symbol
    elif op == 5:
        t = p.parse(w)  # mutate a tree that was handed out
        if t is not None:
            t.set_children([])
            t.symbol = NonTerminal("<mutated>")
    elif op == 6:
        ts = list(p.parse_forest(w))  # mutate a leaf of every handed-out tree
        for t in ts:
            n = t
            while n.children:
                n = n.children[-1]
            n.symbol = Terminal("!")
    elif op == 7:
        p.parse(w, mode=ParsingMode.INCOMPLETE)
    elif op == 8:
        p.parse_forest(w)  # generator created, never started


NOPC = 9


def history_independent(ops: List[int], ws: List[int]) -> bool:
    """
    pre: len(ops) <= NOPS and len(ws) == len(ops)
    pre: all(0 <= o < NOPC for o in ops) and all(0 <= w < NW for w in ws) and (OP0 < 0 or len(ops) == 0 or ops[0] == 0)
    post: _
    """
    target = TARGET
    if OP0 >= 0:
        if len(ops) == 0:
            raise IgnoreAttempt("first op fixed")
        ops = [OP0] + list(ops[1:])
    exclude_known("history_independent", ops=ops, ws=ws, target=target, SPEC=SPEC)
    p = Parser(G.rules)
    for o, w in zip(ops, ws):
        apply_op(p, o, WORDS[w])
    got = forest_obs(p, WORDS[target])
    want = forest_obs(Parser(G.rules), WORDS[target])
    if got != want:
        return False
    # first-tree request and other start symbol agree with a fresh parser, too
    a = p.parse(WORDS[target], START2)
    b = Parser(G.rules).parse(WORDS[target], START2)
    if repr(a) != repr(b):
        return False
    # ... and so do prefix-mode requests (first tree, then the whole forest)
    a = p.parse(WORDS[target], mode=ParsingMode.INCOMPLETE)
    b = Parser(G.rules).parse(WORDS[target], mode=ParsingMode.INCOMPLETE)
    if repr(a) != repr(b):
        return False
    return forest_obs(p, WORDS[target], mode=ParsingMode.INCOMPLETE) == forest_obs(Parser(G.rules), WORDS[target], mode=ParsingMode.INCOMPLETE)


def reach(ops: List[int], ws: List[int]) -> bool:
    """
    pre: len(ops) <= NOPS and len(ws) == len(ops)
    pre: all(0 <= o < NOPC for o in ops) and all(0 <= w < NW for w in ws) and (OP0 < 0 or len(ops) == 0 or ops[0] == 0)
    post: _
    """
    # twin: a full history on the target word itself followed by a non-empty forest (cache hit path)
    target = TARGET
    if OP0 >= 0:
        if len(ops) == 0:
            raise IgnoreAttempt("first op fixed")
        ops = [OP0] + list(ops[1:])
    p = Parser(G.rules)
    for o, w in zip(ops, ws):
        apply_op(p, o, WORDS[w])
    got = forest_obs(p, WORDS[target])
    return not (len(ops) == NOPS and len(got) > 0 and all(w == target for w in ws))


def obs(ops, ws, target):
    p = Parser(G.rules)
    for o, w in zip(ops, ws):
        apply_op(p, o, WORDS[w])
    return forest_obs(p, WORDS[target])


CONFORMANCE = [("obs", [[1], [0], 0]), ("obs", [[2, 1], [0, 0], 0]), ("obs", [[3, 5], [0, 0], 0]),
               ("obs", [[6, 4], [0, 1], 0]), ("obs", [[], [], 1]), ("obs", [[8, 0], [0, 0], 0])]
