"""C02 (every computed repetition bound): a spec with TWO computed repetitions over the same item whose bound expressions mention
the same symbol - the real Evaluator (built by its real constructor from the spec's constraint list) never yields a tree in
which either count is wrong.

Symbolic: the two length digits of a valid tree (obtained from the real parser, so iterations carry their origin tags) and
whether the length digit of <k> / of <v> is then replaced by the other digit (the counts stay).  Reference: accepted iff no digit
was replaced.
"""
import os

from harness.common import *  # noqa
from fandango.evolution.evaluation import Evaluator
from fandango.evolution import GeneratorWithReturn

SPEC = ('<start> ::= <k> "=" <v>\n<k> ::= <len> <c>{int(<len>)}\n<v> ::= <len> <c>{int(<len>) + 1}\n<len> ::= "1" | "2"\n<c> ::= "a"\n')
G, CS = load_with_constraints(SPEC)
TREES = {}
for _l1 in "12":
    for _l2 in "12":
        TREES[(_l1, _l2)] = G.parse(_l1 + "a" * int(_l1) + "=" + _l2 + "a" * (int(_l2) + 1))


def clear():
    for c in CS:
        if hasattr(c, "cache"):
            c.cache.clear()


def find(t, name):
    for c in t.children:
        if c.symbol.is_non_terminal and c.symbol.name() == name:
            return c
    return None


def yielded(l1, l2, flipk, flipv):
    """the valid tree for (l1, l2) with the length digit of <k> / <v> replaced by the other digit (counts and origin tags kept)"""
    t = TREES[(l1, l2)].deepcopy()
    for name, flip in (("<k>", flipk), ("<v>", flipv)):
        if flip:
            ln = find(find(t, name), "<len>")
            old = text_of(ln)
            ln.set_children([DerivationTree(Terminal("2" if old == "1" else "1"))])
    clear()
    ev = Evaluator(G, list(CS), 1.0, 0, 0.0)
    ys, ret = GeneratorWithReturn(ev.evaluate_individual(t)).collect()
    return len(ys), t.to_string()


def both_bounds_enforced(d1: int, d2: int, flipk: bool, flipv: bool) -> bool:
    """
    pre: 1 <= d1 <= 2 and 1 <= d2 <= 2
    post: _
    """
    exclude_known("both_bounds_enforced", d1=d1, d2=d2, flipk=flipk, flipv=flipv)
    l1 = "1" if d1 == 1 else "2"
    l2 = "1" if d2 == 1 else "2"
    n, _ = yielded(l1, l2, bool(flipk), bool(flipv))
    ok = not flipk and not flipv
    return (n >= 1) == ok  # C02: never when a bound is violated; C03: always when both hold


def reach(d1: int, d2: int, flipk: bool, flipv: bool) -> bool:
    """
    pre: 1 <= d1 <= 2 and 1 <= d2 <= 2
    post: _
    """
    l1 = "1" if d1 == 1 else "2"
    l2 = "1" if d2 == 1 else "2"
    n, _ = yielded(l1, l2, bool(flipk), bool(flipv))
    return not (n == 1)


def obs(l1, l2, flipk, flipv):
    return yielded(l1, l2, flipk, flipv)


CONFORMANCE = [("obs", ["1", "1", False, False]), ("obs", ["2", "2", False, True]), ("obs", ["1", "2", True, False]), ("obs", ["2", "1", True, True])]
