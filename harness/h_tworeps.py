"""C02 (every computed repetition bound): a spec with TWO computed repetitions over the same item whose bound expressions mention
the same symbol - the real Evaluator (built by its real constructor from the spec's constraint list) never yields a tree in
which either count is wrong.

Symbolic: the two length digits of a valid tree (obtained from the real parser, so iterations carry their origin tags) and
whether the length digit of <k> / of <v> is then replaced by the other digit (the counts stay).  Reference: accepted iff no digit
was replaced.
"""
import os

from harness.common import *  # noqa
from fandango.evolution.evaluation import Evaluator
from fandango.evolution import GeneratorWithReturn

SPEC = ('<start> ::= <k> "=" <v>\n<k> ::= <len> <c>{int(<len>)}\n<v> ::= <len> <c>{int(<len>) + 1}\n<len> ::= "1" | "2"\n<c> ::= "a"\n')
G, CS = load_with_constraints(SPEC)
TREES = {}
for _l1 in "12":
    for _l2 in "12":
        TREES[(_l1, _l2)] = G.parse(_l1 + "a" * int(_l1) + "=" + _l2 + "a" * (int(_l2) + 1))


def clear():
    for c in CS:
        if hasattr(c, "cache"):
            c.cache.clear()


def find(t, name):
    for c in t.children:
        if c.symbol.is_non_terminal and c.symbol.name() == name:
            return c
    return None


def yielded(l1, l2, flipk, flipv):
    """the valid tree for (l1, l2) with the length digit of <k> / <v> replaced by the other digit (counts and origin tags kept)"""
    t = TREES[(l1, l2)].deepcopy()
    for name, flip in (("<k>", flipk), ("<v>", flipv)):
        if flip:
            ln = find(find(t, name), "<len>")
            old = text_of(ln)
            ln.set_children([DerivationTree(Terminal("2" if old == "1" else "1"))])
    clear()
    ev = Evaluator(G, list(CS), 1.0, 0, 0.0)
    ys, ret = GeneratorWithReturn(ev.evaluate_individual(t)).collect()
    return len(ys), t.to_string()


def both_bounds_enforced(d1: int, d2: int, flipk: bool, flipv: bool) -> bool:
    """
    pre: 1 <= d1 <= 2 and 1 <= d2 <= 2
    post: _
    """
    exclude_known("both_bounds_enforced", d1=d1, d2=d2, flipk=flipk, flipv=flipv)
    l1 = "1" if d1 == 1 else "2"
    l2 = "1" if d2 == 1 else "2"
    n, _ = yielded(l1, l2, bool(flipk), bool(flipv))
    ok = not flipk and not flipv
    return (n >= 1) == ok  # C02: never when a bound is violated; C03: always when both hold


def reach(d1: int, d2: int, flipk: bool, flipv: bool) -> bool:
    """
    pre: 1 <= d1 <= 2 and 1 <= d2 <= 2
    post: _
    """
    l1 = "1" if d1 == 1 else "2"
    l2 = "1" if d2 == 1 else "2"
    n, _ = yielded(l1, l2, bool(flipk), bool(flipv))
    return not (n == 1)


def obs(l1, l2, flipk, flipv):
    return yielded(l1, l2, flipk, flipv)


CONFORMANCE = [("obs", ["1", "1", False, False]), ("obs", ["2", "2", False, True]), ("obs", ["1", "2", True, False]), ("obs", ["2", "1", True, True])]


# ---- C11: the same tree evaluated again by a second Evaluator that shares the constraint objects -------------------------------
SPEC1 = '<start> ::= <len> <c>{int(<len>)}\n<len> ::= "1" | "2"\n<c> ::= "a"\nwhere str(<len>) == "1"\n'
G1, CS1 = load_with_constraints(SPEC1)
G1F, CS1F = load_with_constraints(SPEC1)
T1 = {d: G1.parse(d + "a" * int(d)) for d in "12"}


def _observe(g, cs, t):
    ev = Evaluator(g, list(cs), 1.0, 0, 0.0)
    ys, ret = GeneratorWithReturn(ev.evaluate_individual(t)).collect()
    return (len(ys), ret[0], sorted(repr(ft.tree) for ft in ret[1]))


def _tree1(d, flip):
    t = T1[d].deepcopy()
    if flip:
        ln = find(t, "<len>")
        ln.set_children([DerivationTree(Terminal("2" if d == "1" else "1"))])
    return t


def repeat_equals_fresh(d1: int, flip: bool, times: int) -> bool:
    """
    pre: 1 <= d1 <= 2 and 1 <= times <= 3
    post: _
    """
    exclude_known("repeat_equals_fresh", d1=d1, flip=flip, times=times)
    d = "1" if d1 == 1 else "2"
    flip = bool(flip)
    for c in CS1:
        if hasattr(c, "cache"):
            c.cache.clear()
    got = None
    for _ in range(1 if times == 1 else (2 if times == 2 else 3)):
        got = _observe(G1, CS1, _tree1(d, flip))  # a new Evaluator each time; the constraint objects (and their caches) are shared
    for c in CS1F:
        if hasattr(c, "cache"):
            c.cache.clear()
    want = _observe(G1F, CS1F, _tree1(d, flip))
    return got == want


def obs1(d, flip, times):
    for c in CS1:
        if hasattr(c, "cache"):
            c.cache.clear()
    out = []
    for _ in range(times):
        out.append(_observe(G1, CS1, _tree1(d, flip)))
    return out


CONFORMANCE += [("obs1", ["1", True, 2]), ("obs1", ["2", False, 2]), ("obs1", ["2", True, 3])]
# the property function itself on concrete inputs: CrossHair does not reproduce list sharing through copy() of a cached fitness
# object, so a violation that lives in that sharing is visible only natively (the driver replays a native False and reports it)
CONFORMANCE += [("repeat_equals_fresh", [1, True, 2]), ("repeat_equals_fresh", [2, True, 3]), ("repeat_equals_fresh", [1, False, 2])]
