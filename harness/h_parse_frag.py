"""C13 (str grammars, literal terminals): IterativeParser fed fragment by fragment.

Symbolic: `word` (any str, len <= H_LEN) and `cuts` (cuts[i] true = a fragment boundary after
character i), i.e. all 2^(n-1) compositions.  Oracles: the same parser fed the whole word at once
(multiset of tree reprs), and the reference recogniser for can_continue(): after a prefix p the
parser may answer "cannot continue" only if no extension of p is in the language; the converse
direction is checked against the prefix-viability oracle `viable` (reference semantics).
"""
import os
from typing import List

from harness.common import *  # noqa

SPEC = os.environ.get("H_SPEC", "prefix")
N = int(os.environ.get("H_LEN", "3"))
N_REACH = int(os.environ.get("H_REACH", str(N)))
nodes_mod.MAX_REPETITIONS = 20
G = load(SPEC)


def pieces_of(word, cuts):
    out = []
    cur = 0
    for i in range(len(word) - 1):
        if cuts[i]:
            out.append(word[cur:i + 1])
            cur = i + 1
    if len(word) > 0:
        out.append(word[cur:])
    return out


def prefix_ends(g, node, w, i, depth=0):
    """(ends, can_extend): ends = j with node =>* w[i:j]; can_extend = node derives some string that
    has w[i:] as a proper-or-equal prefix continuing beyond the available input (reference semantics
    for prefix viability)"""
    if depth > (len(w) + 1) * len(g.rules) + 1:
        return set(), False
    if isinstance(node, TerminalNode):
        lit = node.symbol.value()._value
        n = len(lit)
        rest = w[i:]
        if len(rest) >= n:
            return ({i + n} if rest[:n] == lit else set()), False
        return set(), lit[:len(rest)] == rest and n > len(rest)
    if isinstance(node, NonTerminalNode):
        return prefix_ends(g, g.rules[node.symbol], w, i, depth + 1)
    if isinstance(node, Alternative):
        es, ce = set(), False
        for a in node.alternatives:
            e, c = prefix_ends(g, a, w, i, depth)
            es |= e
            ce = ce or c
        return es, ce
    if isinstance(node, Concatenation):
        cur = {i}
        ce = False
        for idx, c in enumerate(node.nodes):
            nxt = set()
            for k in cur:
                e, x = prefix_ends(g, c, w, k, depth)
                nxt |= e
                ce = ce or x  # input exhausted inside c: whatever follows can be completed later
            cur = nxt
            if not cur:
                break
        return cur, ce
    if isinstance(node, Repetition):
        lo, hi = rep_bounds(node)
        cur = {i}
        res = set(cur) if lo == 0 else set()
        ce = False
        for r in range(1, min(hi, lo + len(w)) + 1):
            nxt = set()
            for k in cur:
                e, x = prefix_ends(g, node.node, w, k, depth)
                nxt |= e
                ce = ce or x
            if r >= lo:
                res |= nxt
            if not nxt:
                break
            cur = nxt
        return res, ce
    raise TypeError(node)


def productive_after(g, node, w, i, depth=0):
    """can `node` derive w[i:] + s for some s (possibly empty)?  True if an end reaches len(w) with
    optional/remaining material or the input runs out inside a terminal."""
    es, ce = prefix_ends(g, node, w, i, depth)
    return ce or (len(w) in es)


def same_as_whole(word: str, cuts: List[bool]) -> bool:
    """
    pre: len(word) <= N and len(cuts) == max(0, len(word) - 1)
    post: _
    """
    return _same_as_whole(word, cuts)


def _same_as_whole(word, cuts):
    # body of `same_as_whole` without a contract of its own: CrossHair assumes the contracts of CALLED functions, so a
    # contract function that delegates to another contract function would silently drop the callee's failures
    exclude_known("same_as_whole", word=word, cuts=cuts, SPEC=SPEC)
    ps = pieces_of(word, cuts)
    whole = iter_forest(G, word)
    if len(word) == 0:
        return True
    frag, cont = iter_forest_fragments(G, ps)
    a = sorted(repr(t) for t in whole)
    b = sorted(repr(t) for t in frag)
    if a != b:
        return False
    for t in frag:
        if text_of(t) != word or not valid(G, t):
            return False
    return True


def continue_sound(word: str, cuts: List[bool]) -> bool:
    """
    pre: len(word) <= N and len(cuts) == max(0, len(word) - 1)
    post: _
    """
    # "cannot continue" only if no extension of the consumed input is in the language
    exclude_known("continue_sound", word=word, cuts=cuts, SPEC=SPEC)
    ps = pieces_of(word, cuts)
    if len(word) == 0:
        return True
    frag, cont = iter_forest_fragments(G, ps)
    consumed = 0
    for piece, c in zip(ps, cont):
        consumed += len(piece)
        if not c:
            es, ce = prefix_ends(G, G.rules[NonTerminal("<start>")], word[:consumed], 0)
            # some strict extension exists iff the input ran out inside the grammar (ce)
            if ce:
                return False
    return True


ALPHA = os.environ.get("H_ALPHA", "ab")
FIRST = os.environ.get("H_FIRST", "")  # non-empty: the first character is fixed per condition (conditions run in parallel); "-" = the empty word only


def concretise(word):
    """case split over the stated alphabet: one path per concrete word (CrossHair's own symbolic regex
    matcher would otherwise explore thousands of partial-match paths for a handful of words)"""
    out = ""
    for c in word:
        for a in ALPHA:
            if c == a:
                out += a
                break
        else:
            raise IgnoreAttempt("outside the alphabet")
    return out


def same_as_whole_fa(word: str, cuts: List[bool]) -> bool:
    """
    pre: len(word) <= N and len(cuts) == max(0, len(word) - 1) and all(c in ALPHA for c in word)
    post: _
    """
    # finite-alphabet variant for grammars with regex terminals (cuts inside regex matches)
    if FIRST == "-":
        if len(word) != 0:
            raise IgnoreAttempt("first character fixed per condition")
    elif FIRST:
        if len(word) == 0 or word[0] != FIRST:
            raise IgnoreAttempt("first character fixed per condition")
    return _same_as_whole(concretise(word), cuts)


def reach(word: str, cuts: List[bool]) -> bool:
    """
    pre: len(word) <= N and len(cuts) == max(0, len(word) - 1)
    post: _
    """
    # twin: a maximal-length word, cut at least once, has a complete parse
    ps = pieces_of(word, cuts)
    if len(word) < N_REACH or len(ps) < 2:
        return True
    frag, cont = iter_forest_fragments(G, ps)
    return len(frag) == 0


def obs(name, word, cuts):
    g = CONF_G[name]
    ps = pieces_of(word, cuts)
    frag, cont = iter_forest_fragments(g, ps)
    return sorted(repr(t) for t in frag), cont, sorted(repr(t) for t in iter_forest(g, word))


CONF_NAMES = ["prefix", "list", "nested", "rec", "uni"]
CONF_G = {n: load(n) for n in CONF_NAMES} if os.environ.get("VERIF_CONFORM") else {}
CONFORMANCE = [
    ("obs", ["prefix", "xyz", [True, False]]),
    ("obs", ["prefix", "xyz", [False, True]]),
    ("obs", ["prefix", "xyz", [True, True]]),
    ("obs", ["list", "ab,a01;", [False, True, False, True, True, False]]),
    ("obs", ["nested", "aab-a-", [True, True, True, True, True]]),
    ("obs", ["rec", "aa=bb", [True, False, True, False]]),
    ("obs", ["uni", "\xe9€x", [True, True]]),
    ("obs", ["prefix", "xq", [True]]),
]
