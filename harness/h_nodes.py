"""C01 (a): inductive unit harnesses - one per fuzz() implementation of the grammar nodes.

The node under test is real (Alternative, Concatenation, Repetition, Plus, Star, Option,
NonTerminalNode); its sub-nodes are STUB nodes whose fuzz() appends one tagged leaf and whose
distance_to_completion comes from a symbolic index into a stated set {0, 1, 3, inf}; `random` is the
symbolic draw list; min/max, the node budget and (for Repetition.fuzz) the three override arguments
are symbolic.  Assertions (the induction step of "every generated tree is a derivation"):
  Alternative    exactly one alternative is expanded, once;
  Concatenation  every child is expanded exactly once, in order;
  Repetition     the child is expanded k times with min <= k <= max (no override) resp. exactly
                 override_iterations_to_perform - override_starting_repetition times, and the children added by
                 iteration j carry the tag (id, iteration, start + j) in front of their origin_repetitions;
  NonTerminalNode  exactly one child with the node's symbol is added and the rule is expanded once below it.
"""
import os
from typing import List

from harness.common import *  # noqa
from fandango.language.grammar.nodes.node import Node, NodeType
from fandango.language.grammar.grammar import Grammar
import fandango.language.grammar.nodes.alternative as A
import fandango.language.grammar.nodes.repetition as R
import fandango.language.grammar.nodes.terminal as TT

DISTS = (0.0, 1.0, 3.0, float("inf"))
BUDGETS = (0, 1, 2, 5, 100)
NCH = 3


class Stub(Node):
    """a sub-node whose expansion is one tagged leaf"""

    def __init__(self, tag, dist, log):
        super().__init__(NodeType.TERMINAL, [], distance_to_completion=dist)
        self.tag = tag
        self.log = log

    def to_symbol(self):
        return Terminal(self.tag)

    def accept(self, visitor):
        raise NotImplementedError

    def children(self):
        return []

    def fuzz(self, parent, grammar, max_nodes=100, in_message=False):
        self.log.append((self.tag, max_nodes))
        parent.add_child(DerivationTree(Terminal(self.tag)))

    def format_as_spec(self):
        return repr(self.tag)

    def descendents(self, grammar, filter_controlflow=False):
        return iter(())


class Rnd:
    def __init__(self, choices):
        self.c = choices
        self.i = 0

    def nxt(self):
        if self.i >= len(self.c):
            raise IgnoreAttempt("out of choices")
        v = self.c[self.i]
        self.i += 1
        return v

    def randint(self, a, b):
        v = self.nxt()
        if not (a <= v <= b):
            raise IgnoreAttempt("range")
        return v

    def choice(self, seq):
        v = self.nxt()
        if not (0 <= v < len(seq)):
            raise IgnoreAttempt("range")
        return seq[v]

    def random(self):
        return 0.5


def pick(values, i):
    for k, v in enumerate(values):
        if i == k:
            return v
    raise IgnoreAttempt("index")


def with_random(choices, fn):
    r = Rnd(choices)
    saved = (A.random, R.random, TT.random)
    A.random = R.random = TT.random = r
    try:
        out = fn()
    finally:
        A.random, R.random, TT.random = saved
    if r.i != len(choices):
        raise IgnoreAttempt("unused choices")
    return out


GDUMMY = Grammar.dummy()


def alternative_step(dists: List[int], budget: int, choices: List[int]) -> bool:
    """
    pre: 1 <= len(dists) <= 3 and all(0 <= d <= 3 for d in dists) and 0 <= budget <= 4 and len(choices) <= NCH
    post: _
    """
    log = []
    subs = [Stub(f"s{i}", pick(DISTS, d), log) for i, d in enumerate(dists)]
    node = A.Alternative(subs, [], id="alt")
    parent = DerivationTree(NonTerminal("<p>"))
    b = pick(BUDGETS, budget)
    with_random(choices, lambda: node.fuzz(parent, GDUMMY, b))
    return len(log) == 1 and len(parent.children) == 1 and parent.children[0].symbol == Terminal(log[0][0])


def concatenation_step(dists: List[int], budget: int) -> bool:
    """
    pre: 1 <= len(dists) <= 3 and all(0 <= d <= 2 for d in dists) and 0 <= budget <= 4
    post: _
    """
    from fandango.language.grammar.nodes.concatenation import Concatenation as Conc

    log = []
    subs = [Stub(f"s{i}", pick(DISTS, d), log) for i, d in enumerate(dists)]
    node = Conc(subs, [], id="cat")
    node.distance_to_completion = sum(s.distance_to_completion for s in subs) + 1
    parent = DerivationTree(NonTerminal("<p>"))
    node.fuzz(parent, GDUMMY, pick(BUDGETS, budget))
    return [t for t, _ in log] == [s.tag for s in subs] and [c.symbol for c in parent.children] == [Terminal(s.tag) for s in subs]


KIND = os.environ.get("H_KIND", "rep")


def repetition_step(lo: int, hi: int, dist: int, budget: int, start: int, todo: int, choices: List[int]) -> bool:
    """
    pre: 0 <= lo <= hi <= 3 and 1 <= hi and 0 <= dist <= 2 and 0 <= budget <= 4
    pre: 0 <= start <= 2 and -1 <= todo <= 3 and len(choices) <= NCH
    post: _
    """
    # case split: the counts flow into the float arithmetic of the budget reservation; keeping them symbolic
    # makes every query a mixed int/float problem (no verdict in 600 s), concrete values per path are exact
    lo, hi, start, todo = pick((0, 1, 2, 3), lo), pick((0, 1, 2, 3), hi), pick((0, 1, 2), start), pick((-1, 0, 1, 2, 3), todo + 1)
    log = []
    sub = Stub("s", pick(DISTS, dist), log)
    nodes_mod.MAX_REPETITIONS = 3
    if KIND == "rep":
        node = R.Repetition(sub, [], id="rep", min_=lo, max_=hi)
    elif KIND == "star":
        node = R.Star(sub, [], id="rep")
        lo, hi = 0, 3
    elif KIND == "plus":
        node = R.Plus(sub, [], id="rep")
        lo, hi = 1, 3
    else:
        node = R.Option(sub, [], id="rep")
        lo, hi = 0, 1
    node.distance_to_completion = lo * sub.distance_to_completion + 1
    parent = DerivationTree(NonTerminal("<p>"), [DerivationTree(Terminal("pre"))])
    b = pick(BUDGETS, budget)
    if todo < 0:
        before = node.iteration
        with_random(choices, lambda: node.fuzz(parent, GDUMMY, b))
        k = len(log)
        if not (lo <= k <= hi):
            return False
        it, first = before + 1, 0
    else:
        if todo < start:
            raise IgnoreAttempt("override")
        with_random(choices, lambda: node.fuzz(parent, GDUMMY, b, override_current_iteration=7,
                                              override_starting_repetition=start, override_iterations_to_perform=todo))
        k = len(log)
        if k != todo - start:
            return False
        it, first = 7, start
    kids = parent.children[1:]
    if len(kids) != k:
        return False
    for j, c in enumerate(kids):
        if len(c.origin_repetitions) == 0 or c.origin_repetitions[0] != ("rep", it, first + j):
            return False
    return parent.children[0].origin_repetitions == []


GNT = load('<start> ::= <a> "x"\n<a> ::= "p" | "q"\n')


def nonterminal_step(budget: int, choices: List[int]) -> bool:
    """
    pre: 0 <= budget <= 4 and len(choices) <= NCH
    post: _
    """
    node = NonTerminalNode(NonTerminal("<a>"), [])
    parent = DerivationTree(NonTerminal("<p>"), [DerivationTree(Terminal("pre"))])
    with_random(choices, lambda: node.fuzz(parent, GNT, pick(BUDGETS, budget)))
    if len(parent.children) != 2:
        return False
    c = parent.children[1]
    return c.symbol == NonTerminal("<a>") and valid(GNT, c) and c.parent is parent


def reach_rep(lo: int, hi: int, dist: int, budget: int, start: int, todo: int, choices: List[int]) -> bool:
    """
    pre: 0 <= lo <= hi <= 3 and 1 <= hi and 0 <= dist <= 2 and 0 <= budget <= 4
    pre: 0 <= start <= 2 and -1 <= todo <= 3 and len(choices) <= NCH
    post: _
    """
    # twin: a repair-style call (override) that adds two iterations
    log = []
    sub = Stub("s", pick(DISTS, dist), log)
    node = R.Repetition(sub, [], id="rep", min_=lo, max_=hi)
    node.distance_to_completion = lo * sub.distance_to_completion + 1
    parent = DerivationTree(NonTerminal("<p>"))
    if todo < start or todo < 0:
        return True
    with_random(choices, lambda: node.fuzz(parent, GDUMMY, pick(BUDGETS, budget), override_current_iteration=7,
                                          override_starting_repetition=start, override_iterations_to_perform=todo))
    return not (len(log) == 2)


def obs(lo, hi, dist, budget, start, todo, choices):
    log = []
    sub = Stub("s", DISTS[dist], log)
    node = R.Repetition(sub, [], id="rep", min_=lo, max_=hi)
    node.distance_to_completion = lo * sub.distance_to_completion + 1
    parent = DerivationTree(NonTerminal("<p>"))
    r = Rnd(choices)
    saved = R.random
    R.random = r
    try:
        if todo < 0:
            node.fuzz(parent, GDUMMY, BUDGETS[budget])
        else:
            node.fuzz(parent, GDUMMY, BUDGETS[budget], override_current_iteration=7, override_starting_repetition=start, override_iterations_to_perform=todo)
    finally:
        R.random = saved
    return log, [c.origin_repetitions for c in parent.children]


CONFORMANCE = [("obs", [1, 3, 1, 4, 0, -1, [2]]), ("obs", [0, 2, 2, 1, 0, -1, [2]]), ("obs", [1, 2, 0, 3, 1, 3, [1]]), ("obs", [2, 2, 1, 0, 0, -1, [2]])]
