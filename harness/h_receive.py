"""C20 (receive path unit): parse_next_remote_packet + the FandangoIO receive buffer under symbolic remote
data, interleaving and arrival schedule.

Real code: FandangoIO.add_receive/get_received_msgs/clear_by_party, parse_next_remote_packet (with one
IterativeParser per forecast message type), PacketForecaster.predict for the forecast.
Spec: <start> ::= <A:B:ping> (<B:A:count> | <B:A:ok>) <C:A:note>?   with <count> ::= <digit>+ (a message
whose complete parse is a proper prefix of a longer one), <ok> ::= "OK", <note> ::= "!".
Symbolic: text - the characters party B sends (len <= H_LEN over a stated alphabet containing the message
letters and a foreign one); inter - where a fragment of party C ("!") is interleaved; late - how many of
B's fragments arrive only while the parser is already waiting (delivered by the time.sleep stub);
time.time is a stub that advances 0.3 s per call, so every timeout can fire.
Assertions: the returned tree spells exactly the first k fragments of B, in order, for the k the reference
says (longest prefix that is a message of a forecast type given everything that arrives); exactly those
k fragments are removed from the buffer, all other fragments keep their order; sender/recipient are the
forecast's; data that fits no forecast type raises FandangoFailedError / FandangoValueError.
"""
import os
from typing import List

from harness.common import *  # noqa
from fandango.errors import FandangoFailedError, FandangoValueError, FandangoParseError
from fandango.io import FandangoIO
from fandango.io.navigation.packetforecaster import PacketForecaster
import fandango.io.packetparser as PP

N = int(os.environ.get("H_LEN", "3"))
LATE = int(os.environ.get("H_LATE", "-1"))  # >= 0: the number of late fragments is fixed per condition
ALPHA = "17OK?"
SPEC = """<start> ::= <A:B:ping> (<B:A:count> | <B:A:ok>) <C:A:note>?
<ping> ::= 'p'
<count> ::= <digit>+
<digit> ::= '1' | '7'
<ok> ::= 'OK'
<note> ::= '!'

class A(FandangoParty):
    def __init__(self):
        super().__init__(connection_mode=ConnectionMode.OPEN)

    def send(self, message, recipient):
        pass


class B(FandangoParty):
    def __init__(self):
        super().__init__(connection_mode=ConnectionMode.EXTERNAL)


class C(FandangoParty):
    def __init__(self):
        super().__init__(connection_mode=ConnectionMode.EXTERNAL)
"""
G = load(SPEC)
nodes_mod.MAX_REPETITIONS = 5
FORECASTER = PacketForecaster(G)


def history_after_ping():
    tree = DerivationTree(NonTerminal("<start>"))
    pred = FORECASTER.predict(tree)
    pk = pred["A"][NonTerminal("<ping>")]
    path = sorted(pk.paths, key=lambda p: repr(p))[0]
    t = path.tree.deepcopy()
    t.append(path.path[1:-1], DerivationTree(NonTerminal("<ping>"), [DerivationTree(Terminal("p"))], sender="A", recipient="B"))
    return t


FORECAST = FORECASTER.predict(history_after_ping())  # computed once, outside the engine (C19 covers the forecaster)


class StubTime:
    """time.time advances 0.3 s per call; time.sleep delivers the next pending fragment"""

    def __init__(self, io, pending):
        self.now = 0.0
        self.io = io
        self.pending = pending

    def time(self):
        self.now += 0.3
        return self.now

    def sleep(self, dt):
        self.now += dt
        if self.pending:
            s, r, m = self.pending.pop(0)
            self.io.add_receive(s, r, m)


class FirstChoice:
    def choice(self, seq):
        return seq[0]


def ref_longest(text):
    """longest k such that text[:k] is a <count> or an <ok> message and the parser could not have
    continued beyond (digits: maximal run of digits from the start; OK: exactly 'OK')"""
    if text[:2] == "OK":
        return 2
    k = 0
    while k < len(text) and text[k] in "17":
        k += 1
    return k


def run_receive(text, inter, late):
    io = FandangoIO()
    forecast = FORECAST
    frags = [("B", "A", ch) for ch in text]
    if 0 <= inter <= len(frags):
        frags.insert(inter, ("C", "A", "!"))
    now, pending = frags[:len(frags) - late], frags[len(frags) - late:]
    if len(now) == 0:
        raise IgnoreAttempt("nothing received yet: the caller does not enter the receive path")
    for s, r, m in now:
        io.add_receive(s, r, m)
    stub = StubTime(io, pending)
    saved = (PP.time, PP.random)
    PP.time = stub
    PP.random = FirstChoice()  # which mounting path is used for the hook-in point: the first (one path per type here)
    try:
        packet, tree = PP.parse_next_remote_packet(G, forecast, io)
    finally:
        PP.time, PP.random = saved
    for s, r, m in stub.pending:  # fragments that arrive after the call
        io.add_receive(s, r, m)
    return packet, tree, io.get_received_msgs(), frags


def receive_ok(text: str, inter: int, late: int) -> bool:
    """
    pre: 1 <= len(text) <= N and all(c in ALPHA for c in text)
    pre: -1 <= inter <= N and 0 <= late <= 2 and (LATE < 0 or late == LATE)
    post: _
    """
    exclude_known("receive_ok", text=text, inter=inter, late=late)
    if late > len(text):
        raise IgnoreAttempt("late")
    k = ref_longest(text)
    try:
        packet, tree, left, frags = run_receive(text, inter, late)
    except (FandangoFailedError, FandangoValueError):
        # allowed exactly when B's data fits no expected message type (or B has not sent anything yet
        # while only C's fragment is there)
        first_b = [f for f in frags_of(text, inter)[:max(0, len(frags_of(text, inter)) - late)] if f[0] == "B"]
        return k == 0 or len(first_b) == 0
    if k == 0:
        return False  # unfitting data was accepted
    if tree is None or packet is None:
        return False
    got = text_of(tree)
    # what arrived only AFTER the parser gave up waiting cannot be part of the message; everything that
    # was there or arrived while waiting must be consumed up to the longest fitting prefix
    if not (1 <= len(got) <= k and text[:len(got)] == got):
        return False
    if late == 0 and len(got) != k:
        return False
    if not (tree.sender == "B" and tree.recipient == "A"):
        return False
    if not valid(G, tree):
        return False
    # buffer: exactly the consumed B fragments are gone, everything else in order
    expect = []
    consumed = 0
    for f in frags:
        if f[0] == "B" and consumed < len(got):
            consumed += 1
            continue
        expect.append(f)
    return left == expect


def frags_of(text, inter):
    frags = [("B", "A", ch) for ch in text]
    if 0 <= inter <= len(frags):
        frags.insert(inter, ("C", "A", "!"))
    return frags


def reach(text: str, inter: int, late: int) -> bool:
    """
    pre: 1 <= len(text) <= N and all(c in ALPHA for c in text)
    pre: -1 <= inter <= N and 0 <= late <= 2 and (LATE < 0 or late == LATE)
    post: _
    """
    # twin: a <count> message followed by further data of B, with C interleaved, is accepted
    if late > len(text):
        raise IgnoreAttempt("late")
    try:
        packet, tree, left, frags = run_receive(text, inter, late)
    except (FandangoFailedError, FandangoValueError):
        return True
    return not (tree is not None and 1 <= len(text_of(tree)) < len(text) and 0 <= inter)


def obs(text, inter, late):
    try:
        packet, tree, left, frags = run_receive(text, inter, late)
        return text_of(tree), tree.sender, tree.recipient, left
    except (FandangoFailedError, FandangoValueError) as e:
        return type(e).__name__


CONFORMANCE = [("obs", ["17O", 1, 0]), ("obs", ["OK", -1, 1]), ("obs", ["?1", 0, 0]), ("obs", ["7", 1, 0]), ("obs", ["71K", 2, 2])]
