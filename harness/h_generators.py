"""C16: generator-defined fields carry generator output and are not edited behind it.

Specs (read by the real reader): `dep` - <sum> := add(<a>, <b>) (two distinct symbol arguments);
`twice` - <dd> := str(<a>) + str(<a>) (the same symbol mentioned twice); `stub` - <hdr> := gen_hdr()
where gen_hdr is replaced in the spec's globals by a harness stub returning a SYMBOLIC string and
recording it; `nested` - a generated field whose argument is itself generated.
Symbolic: every random draw of Grammar.fuzz (choices); the stub's return value; the node that an
operator replaces (index over ALL nodes, sources included) and which same-symbol subtree of a second
tree replaces it.
Assertions: (1) every generator-defined field's text equals the generator applied (by the harness'
own Python re-implementation) to the argument trees recorded in .sources; its children are read-only;
(2) a stub value that does not fit the rule raises FandangoParseError, a fitting one appears verbatim;
(3) after replace(): invariants (1) hold on the result, read-only nodes were not replaced (result
structurally equal to the input), and the input tree is unchanged.
"""
import os
from typing import List

from harness.common import *  # noqa
from harness.h_tree import struct_eq, snapshot
from fandango.errors import FandangoParseError, FandangoValueError
import fandango.language.grammar.nodes.alternative as A
import fandango.language.grammar.nodes.repetition as R
import fandango.language.grammar.nodes.terminal as TT

GEN_SPECS = {
    "dep": '<start> ::= <a> "+" <b> "=" <sum>\n<a> ::= <bit>\n<b> ::= <bit>\n<bit> ::= "0" | "1"\n<sum> ::= <bit>+ := add(<a>, <b>)\n\n'
           'def add(a, b):\n    return bin(int(str(a), 2) + int(str(b), 2))[2:]\n',
    "twice": '<start> ::= <a> ":" <dd>\n<a> ::= <bit> | <bit> "0"\n<bit> ::= "0" | "1"\n<dd> ::= <bit>+ := str(<a>) + str(<a>)\n',
    "stub": '<start> ::= <hdr> ":" <body>\n<hdr> ::= <d>+ := gen_hdr()\n<d> ::= "0" | "1"\n<body> ::= "x" | "y"\n\ndef gen_hdr():\n    return "0"\n',
    "nested": '<start> ::= <len> "#" <chk>\n<pay> ::= "p"{1,2}\n<len> ::= <d> := str(len(str(<pay>)))\n<d> ::= "1" | "2" | "3"\n'
              '<chk> ::= <d> := str(int(str(<len>)) + 1)\n',
    # a dependent generator whose value can leave the language of its rule: len("ppp") = "3" is no <d>
    "overflow": '<start> ::= <len> ":" <pay>\n<len> ::= <d> := str(len(str(<pay>)))\n<d> ::= "1" | "2"\n<pay> ::= "p"{1,3}\n',
}
SPEC = os.environ.get("H_SPEC", "dep")
NCH = int(os.environ.get("H_CHOICES", "6"))
WHICH = int(os.environ.get("H_WHICH", "-1"))  # >= 0: the replacement candidate is fixed per condition
G = load(GEN_SPECS[SPEC])
nodes_mod.MAX_REPETITIONS = 3 if SPEC == "overflow" else 2
RET_ALPHA = "01a"

# harness-owned re-implementation of each generator, applied to the recorded argument trees
def _src(n, sym):
    for s in n.sources:
        if s.symbol.name() == sym:
            return s
    return None


EXPECT = {
    "dep": {"<sum>": lambda n: bin(int(text_of(_src(n, "<a>")), 2) + int(text_of(_src(n, "<b>")), 2))[2:]},
    "twice": {"<dd>": lambda n: text_of(_src(n, "<a>")) * 2},
    "stub": {},
    "nested": {"<len>": lambda n: str(len(text_of(_src(n, "<pay>")))), "<chk>": lambda n: str(int(text_of(_src(n, "<len>"))) + 1)},
    "overflow": {"<len>": lambda n: str(len(text_of(_src(n, "<pay>"))))},
}[SPEC]


class Rnd:
    def __init__(self, choices):
        self.c = choices
        self.i = 0

    def nxt(self):
        if self.i >= len(self.c):
            raise IgnoreAttempt("out of choices")
        v = self.c[self.i]
        self.i += 1
        return v

    def randint(self, a, b):
        v = self.nxt()
        if not (a <= v <= b):
            raise IgnoreAttempt("range")
        return v

    def choice(self, seq):
        v = self.nxt()
        if not (0 <= v < len(seq)):
            raise IgnoreAttempt("range")
        return seq[v]

    def random(self):
        return 0.5


def fuzz_with(choices):
    r = Rnd(choices)
    saved = (A.random, R.random, TT.random)
    A.random = R.random = TT.random = r
    try:
        t = G.fuzz("<start>", 30)
    except FandangoParseError:
        if SPEC == "overflow":  # the generated length is no <d>: raising is the specified behaviour
            raise IgnoreAttempt("generator value does not fit its rule")
        raise
    finally:
        A.random, R.random, TT.random = saved
    if r.i != len(choices):
        raise IgnoreAttempt("unused choices")
    return t


def all_nodes(n):
    out = [n]
    for c in n.children:
        out += all_nodes(c)
    for s in n.sources:
        out += all_nodes(s)
    return out


def generated_ok(t):
    for n in all_nodes(t):
        if n.symbol.is_non_terminal and n.symbol.name() in EXPECT and G.is_use_generator(n):
            if len(n.sources) == 0:
                return False
            if text_of(n) != EXPECT[n.symbol.name()](n):
                return False
            for c in n.children:
                for d in c.flatten():
                    if not d.read_only:
                        return False
    return valid_with_sources(t)


def valid_with_sources(t):
    if not valid(G, t):
        return False
    for n in all_nodes(t):
        for s in n.sources:
            if not valid(G, s):
                return False
    return True


# a fixed second tree (fuzzed natively at import with a seeded generator) supplies replacement subtrees
import random as _random
_random.seed(int(os.environ.get("VERIF_SEED", "0") or 0) + 7)
OTHERS = []
for _ in range(400):
    try:
        _t = G.fuzz("<start>", 30)
    except FandangoParseError:
        continue  # spec `overflow`: a generated value that does not fit
    if SPEC == "overflow" and len(OTHERS) == 0 and not _t.to_string().endswith(":ppp"):
        continue  # the first replacement candidate for <pay> is one whose length is no <d>
    OTHERS.append(_t)
    if len(OTHERS) == 3:
        break
assert len(OTHERS) == 3


def fields_follow_generators(choices: List[int]) -> bool:
    """
    pre: len(choices) <= NCH and all(0 <= c <= 2 for c in choices)
    post: _
    """
    exclude_known("fields_follow_generators", choices=choices, SPEC=SPEC)
    t = fuzz_with(choices)
    return generated_ok(t)


def operators_respect_generators(choices: List[int], target: int, which: int) -> bool:
    """
    pre: len(choices) <= NCH and all(0 <= c <= 2 for c in choices)
    pre: 0 <= target <= 24 and 0 <= which <= 5 and (WHICH < 0 or which == WHICH)
    post: _
    """
    exclude_known("operators_respect_generators", choices=choices, target=target, which=which, SPEC=SPEC)
    t = fuzz_with(choices)
    nodes = all_nodes(t)
    if target >= len(nodes):
        raise IgnoreAttempt("target")
    n = nodes[target]
    if not n.symbol.is_non_terminal:
        raise IgnoreAttempt("terminal")
    cands = [m for o in OTHERS for m in all_nodes(o) if m.symbol == n.symbol]
    if which >= len(cands):
        raise IgnoreAttempt("which")
    repl = cands[which]
    before = snapshot(t)
    was_read_only = n.read_only
    try:
        t2 = t.replace(G, n, repl)
    except (FandangoValueError, KeyError, FandangoParseError):
        # refusal: the replacement contains a generated field whose arguments cannot be re-derived
        # (no converter: FandangoValueError; generated argument of a generated field: KeyError in the
        # dependency sort), or the re-run generator's value does not fit its rule (FandangoParseError);
        # an error instead of an edit is what the property asks for
        return snapshot(t) == before
    if snapshot(t) != before:
        return False  # the input individual was modified
    if was_read_only and not struct_eq(t2, t):
        return False  # generated text edited behind the generator
    return generated_ok(t2)


def reach_ops(choices: List[int], target: int, which: int) -> bool:
    """
    pre: len(choices) <= NCH and all(0 <= c <= 2 for c in choices)
    pre: 0 <= target <= 24 and 0 <= which <= 5 and (WHICH < 0 or which == WHICH)
    post: _
    """
    # twin: an argument recorded in .sources is replaced and the generated text changes
    t = fuzz_with(choices)
    nodes = all_nodes(t)
    if target >= len(nodes):
        raise IgnoreAttempt("target")
    n = nodes[target]
    if not n.symbol.is_non_terminal:
        raise IgnoreAttempt("terminal")
    cands = [m for o in OTHERS for m in all_nodes(o) if m.symbol == n.symbol]
    if which >= len(cands):
        raise IgnoreAttempt("which")
    try:
        t2 = t.replace(G, n, cands[which])
    except (FandangoValueError, KeyError, FandangoParseError):
        return True
    in_sources = any(isinstance(p, SourceStepT) for p in n.get_choices_path())
    return not (in_sources and t2.to_string() != t.to_string())


from fandango.language.tree import SourceStep as SourceStepT

# ---- stub generator ---------------------------------------------------------------------------------
RECORD = []


def stub_value_is_used(ret: str, choices: List[int]) -> bool:
    """
    pre: len(ret) <= 2 and all(c in RET_ALPHA for c in ret) and len(choices) <= NCH and all(0 <= c <= 2 for c in choices)
    post: _
    """
    exclude_known("stub_value_is_used", ret=ret, choices=choices)
    del RECORD[:]

    def gen_hdr():
        RECORD.append(ret)
        return ret

    G._global_variables["gen_hdr"] = gen_hdr
    fits = len(ret) >= 1 and all(c in "01" for c in ret)
    try:
        t = fuzz_with(choices)
    except FandangoParseError:
        return not fits  # a value that does not fit the rule raises instead of being replaced
    if not fits:
        return False
    hdr = [n for n in t.children if n.symbol.is_non_terminal and n.symbol.name() == "<hdr>"]
    return len(hdr) == 1 and text_of(hdr[0]) == ret and len(RECORD) >= 1 and all(d.read_only for c in hdr[0].children for d in c.flatten()) and valid(G, t)


def reach_stub(ret: str, choices: List[int]) -> bool:
    """
    pre: len(ret) <= 2 and all(c in RET_ALPHA for c in ret) and len(choices) <= NCH and all(0 <= c <= 2 for c in choices)
    post: _
    """
    G._global_variables["gen_hdr"] = lambda: ret
    try:
        t = fuzz_with(choices)
    except FandangoParseError:
        return True
    return not (len(ret) == 2)


def obs(choices):
    t = fuzz_with(choices)
    return t.to_string(), generated_ok(t), [(n.symbol.format_as_spec(), n.read_only, len(n.sources)) for n in all_nodes(t)]


def obs_op(choices, target, which):
    t = fuzz_with(choices)
    nodes = all_nodes(t)
    n = nodes[target]
    cands = [m for o in OTHERS for m in all_nodes(o) if m.symbol == n.symbol]
    t2 = t.replace(G, n, cands[which])
    return t2.to_string(), generated_ok(t2), repr(t2)


CONFORMANCE = {
    "dep": [("obs", [[0, 1, 1, 0]]), ("obs", [[1, 1, 0, 1]]), ("obs_op", [[0, 1, 1, 0], 12, 0]), ("obs_op", [[1, 1, 1, 1], 1, 1]), ("obs_op", [[0, 0, 1, 1], 9, 0])],
}.get(SPEC, [])
