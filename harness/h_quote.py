"""C15 (literal quoting): Terminal(v).format_as_spec() read back by Terminal.from_symbol() gives v.

Symbolic: s - str (resp. bytes) of length <= H_LEN over a stated alphabet that contains both quote
characters, backslash, newline, NUL, non-ASCII and non-printable characters (from_symbol uses eval, which
realises the text, so the alphabet is finite and exhausted by path splitting)."""
import os

from engine.hshim import *  # noqa
from fandango.language.symbols import Terminal

N = int(os.environ.get("H_LEN", "2"))
ALPHA = "a'\"\\\n\x00\xe9€ {}r"
BALPHA = (0x61, 0x27, 0x22, 0x5C, 0x0A, 0x00, 0xE9, 0xFF, 0x7B)


def str_roundtrip(s: str) -> bool:
    """
    pre: len(s) <= N and all(c in ALPHA for c in s)
    post: _
    """
    exclude_known("str_roundtrip", s=s)
    t = Terminal(s)
    back = Terminal.from_symbol(t.format_as_spec())
    return back.value()._value == s and isinstance(back.value()._value, str) and not back.is_regex


def bytes_roundtrip(s: bytes) -> bool:
    """
    pre: len(s) <= N and all(c in BALPHA for c in s)
    post: _
    """
    exclude_known("bytes_roundtrip", s=s)
    t = Terminal(s)
    back = Terminal.from_symbol(t.format_as_spec())
    return back.value()._value == s and isinstance(back.value()._value, bytes) and not back.is_regex


def reach(s: str) -> bool:
    """
    pre: len(s) <= N and all(c in ALPHA for c in s)
    post: _
    """
    t = Terminal(s)
    back = Terminal.from_symbol(t.format_as_spec())
    return not (len(s) == N and "'" in s and '"' in s)


def obs(s):
    t = Terminal(s)
    return t.format_as_spec(), Terminal.from_symbol(t.format_as_spec()).value()._value


CONFORMANCE = [("obs", ["a'"]), ("obs", ["\"\\"]), ("obs", [b"\x00\xff"]), ("obs", ["\n€"]), ("obs", [""])]
