"""C20 (history integrity unit): once a message has been exchanged it is part of the recorded interaction and
must not be rewritten when Fandango generates and repairs its next message.

Real code: PacketForecaster.predict, IoPopulationManager._generate_population_entry (mounting the next
fuzzer-side message into the history), IoEvaluator.evaluate_individual, Suggestion.get_replacements,
PopulationManager.fix_individual (DerivationTree.replace_multiple).
Spec: <start> ::= <A:B:ping> <B:A:count> <A:B:echo>, <echo> ::= <digit>+, where str(<echo>) == str(<count>).
Symbolic: the digits the remote sent as <count> (len <= 2 over {1,7}), every random draw of the generation.
Assertions: in every candidate for the next message (before and after repair) the already exchanged messages
<ping> and <count> are still there with the same text, sender and recipient, and are read-only; the repaired
candidate's <echo> equals the received <count> (the repair edits the NEW message, not the history).
"""
import os
from typing import List

from harness.common import *  # noqa
from fandango.io.navigation.packetforecaster import PacketForecaster
from fandango.evolution.population import IoPopulationManager
from fandango.evolution.evaluation import IoEvaluator
from fandango.evolution import GeneratorWithReturn
import fandango.evolution.population as POP
import fandango.language.grammar.nodes.alternative as A
import fandango.language.grammar.nodes.repetition as R
import fandango.language.grammar.nodes.terminal as TT
import fandango.language.grammar.grammar as GR

NCH = int(os.environ.get("H_CHOICES", "6"))
SPEC = """<start> ::= <A:B:ping> <B:A:count> <A:B:echo>
<ping> ::= 'p'
<count> ::= <digit>+
<echo> ::= <digit>+
<digit> ::= '1' | '7'
where str(<echo>) == str(<count>)

class A(FandangoParty):
    def __init__(self):
        super().__init__(connection_mode=ConnectionMode.OPEN)

    def send(self, message, recipient):
        pass


class B(FandangoParty):
    def __init__(self):
        super().__init__(connection_mode=ConnectionMode.EXTERNAL)
"""
G, CS = load_with_constraints(SPEC)
nodes_mod.MAX_REPETITIONS = 2
FORECASTER = PacketForecaster(G)


class Rnd:
    def __init__(self, choices):
        self.c = choices
        self.i = 0

    def nxt(self):
        if self.i >= len(self.c):
            raise IgnoreAttempt("out of choices")
        v = self.c[self.i]
        self.i += 1
        return v

    def randint(self, a, b):
        v = self.nxt()
        if not (a <= v <= b):
            raise IgnoreAttempt("range")
        return v

    def choice(self, seq):
        v = self.nxt()
        if not (0 <= v < len(seq)):
            raise IgnoreAttempt("range")
        return seq[v]

    def random(self):
        return 0.5

    def shuffle(self, seq):
        pass  # Grammar._extract_k_paths_from_tree shuffles a list whose order does not influence the result


def mount(tree, party, nt, msg):
    pred = FORECASTER.predict(tree)
    pk = pred[party][NonTerminal(nt)]
    path = sorted(pk.paths, key=lambda p: repr(p))[0]
    t = path.tree.deepcopy()
    t.append(path.path[1:-1], msg)
    return t


def digits_tree(sym, text, sender, recipient):
    kids = [DerivationTree(NonTerminal("<digit>"), [DerivationTree(Terminal(c))]) for c in text]
    return DerivationTree(NonTerminal(sym), kids, sender=sender, recipient=recipient)


def msgs(tree):
    return [(m.sender, m.recipient, m.msg.symbol.name(), text_of(m.msg)) for m in tree.protocol_msgs()]


def history_is_kept(count: str, choices: List[int]) -> bool:
    """
    pre: 1 <= len(count) <= 2 and all(c in "17" for c in count) and len(choices) <= NCH and all(0 <= c <= 2 for c in choices)
    post: _
    """
    exclude_known("history_is_kept", count=count, choices=choices)
    hist = mount(DerivationTree(NonTerminal("<start>")), "A", "<ping>", DerivationTree(NonTerminal("<ping>"), [DerivationTree(Terminal("p"))], sender="A", recipient="B"))
    hist = mount(hist, "B", "<count>", digits_tree("<count>", count, "B", "A"))
    hist.set_all_read_only(True)  # as _generate_io does after every step
    want = msgs(hist)
    pred = FORECASTER.predict(hist)
    pm = IoPopulationManager(G, "<start>")
    pm.fuzzable_packets = list(pred["A"].nt_to_packet.values())
    r = Rnd(choices)
    saved = (A.random, R.random, TT.random, POP.random, GR.random)
    A.random = R.random = TT.random = POP.random = GR.random = r
    try:
        cand = pm._generate_population_entry(20)
        ev = IoEvaluator(G, CS, 1.0, 5, 1.0)
        ev.start_next_message([hist])
        ys, ret = GeneratorWithReturn(ev.evaluate_individual(cand)).collect()
        fixed, n = pm.fix_individual(cand, ret[2])
    finally:
        A.random, R.random, TT.random, POP.random, GR.random = saved
    if r.i != len(choices):
        raise IgnoreAttempt("unused choices")
    for t in (cand, fixed):
        m = msgs(t)
        if m[:2] != want:
            return False  # an already exchanged message was rewritten / re-attributed
        if len(m) != 3 or m[2][:3] != ("A", "B", "<echo>"):
            return False
        for pm_ in t.protocol_msgs()[:2]:
            if not all(d.read_only for d in pm_.msg.flatten()):
                return False
    # the repair must have edited the new message
    return text_of(fixed.protocol_msgs()[2].msg) == count


def reach(count: str, choices: List[int]) -> bool:
    """
    pre: 1 <= len(count) <= 2 and all(c in "17" for c in count) and len(choices) <= NCH and all(0 <= c <= 2 for c in choices)
    post: _
    """
    # twin: a candidate whose first guess differs from the received count (the repair has work to do)
    hist = mount(DerivationTree(NonTerminal("<start>")), "A", "<ping>", DerivationTree(NonTerminal("<ping>"), [DerivationTree(Terminal("p"))], sender="A", recipient="B"))
    hist = mount(hist, "B", "<count>", digits_tree("<count>", count, "B", "A"))
    pred = FORECASTER.predict(hist)
    pm = IoPopulationManager(G, "<start>")
    pm.fuzzable_packets = list(pred["A"].nt_to_packet.values())
    r = Rnd(choices)
    saved = (A.random, R.random, TT.random, POP.random, GR.random)
    A.random = R.random = TT.random = POP.random = GR.random = r
    try:
        cand = pm._generate_population_entry(20)
    finally:
        A.random, R.random, TT.random, POP.random, GR.random = saved
    if r.i != len(choices):
        raise IgnoreAttempt("unused choices")
    return text_of(cand.protocol_msgs()[2].msg) == count


def obs(count, choices):
    try:
        return history_is_kept(count, choices)
    except IgnoreAttempt:
        return "outside"


CONFORMANCE = [("obs", ["17", [0, 0, 1, 0]]), ("obs", ["7", [0, 0, 2, 1, 1]]), ("obs", ["1", [0, 0, 1, 1]])]
