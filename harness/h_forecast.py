"""C19: protocol forecasting offers exactly the grammar's continuations.

Real code: PacketForecaster (StateGrammarConverter, PacketIterativeParser, PathFinder/ContinuingNodeVisitor),
DerivationTree.append (mounting exactly as _generate_io does), optionally slice_parties.
Symbolic: the message history, as one choice index per step (depth <= H_DEPTH).
Reference: the message-level language of the protocol grammar as a z3 regular expression (each
message occurrence (sender, recipient, symbol) abstracted to a letter; engine/gre-style translation owned
by this harness); the continuation set after history h is {m : exists s. h m s in L}, h is complete iff
h in L - one z3 query per candidate (constructed from concrete h on each path).
"""
import os
from typing import List

import z3

from harness.common import *  # noqa
from fandango.io.navigation.packetforecaster import PacketForecaster

PROTO_SPECS = {
    "fore": "<start> ::= <a>\n<a> ::= <b><StdOut:c>{1,2}<f>\n<b> ::= <StdOut:d>? <StdOut:e>*\n<f> ::= <StdOut:g> | <h>\n<h> ::= <StdOut:i>\n"
            "<c> ::= 'c'\n<d> ::= 'd'\n<e> ::= 'e'\n<g> ::= 'g'\n<i> ::= 'i'\n",
    "pingpong": "<start> ::= <A:B:hello> (<B:A:ack> | <B:A:nak> <A:B:hello>)* <A:B:bye>\n<hello> ::= 'h'\n<ack> ::= 'a'\n<nak> ::= 'n'\n<bye> ::= 'b'\n",
    "group": "<start> ::= (<A:B:req> <B:A:resp>){1,2} <A:B:fin>?\n<req> ::= 'q'\n<resp> ::= 'r'\n<fin> ::= 'f'\n",
    "nest": "<start> ::= <A:B:open> <body> <A:B:close>\n<body> ::= (<A:B:put> | <B:A:get>){,2}\n<open> ::= 'o'\n<close> ::= 'c'\n<put> ::= 'p'\n<get> ::= 'g'\n",
    "same": "<start> ::= <A:B:hello> <B:A:hello> <A:B:bye>?\n<hello> ::= 'h'\n<bye> ::= 'b'\n",
    # two alternatives that begin with the same factored-out, non-nullable sub-rule (one look-ahead reaches <login> twice)
    "shared": "<start> ::= <A:B:greet> <sess>\n<sess> ::= <ok> <A:B:cmd>? | <fail> <A:B:bye>\n<ok> ::= <login> <B:A:k>\n<fail> ::= <login> <B:A:f>\n"
              "<login> ::= <A:B:u> <A:B:p>\n<greet> ::= 'g'\n<cmd> ::= 'c'\n<bye> ::= 'b'\n<k> ::= 'k'\n<f> ::= 'f'\n<u> ::= 'u'\n<p> ::= 'p'\n",
}
PARTIES = """
class A(FandangoParty):
    def __init__(self):
        super().__init__(connection_mode=ConnectionMode.OPEN)

    def send(self, message, recipient):
        pass


class B(FandangoParty):
    def __init__(self):
        super().__init__(connection_mode=ConnectionMode.EXTERNAL)
"""
for _k in ("pingpong", "group", "nest", "same", "shared"):
    PROTO_SPECS[_k] += PARTIES
PARTIES3 = PARTIES + """

class S(FandangoParty):
    def __init__(self):
        super().__init__(connection_mode=ConnectionMode.EXTERNAL)


class X(FandangoParty):
    def __init__(self):
        super().__init__(connection_mode=ConnectionMode.EXTERNAL)
"""
# specs that are sliced to a subset of parties with the real slice_parties() before forecasting
SLICED = {
    "sliced": ("<start> ::= <A:S:hello> (<S:X:ok> | <S:X:err> | <A:S:cancel>) <A:S:bye>? <S:X:done>\n<hello> ::= 'h'\n<ok> ::= 'o'\n<err> ::= 'e'\n"
               "<cancel> ::= 'c'\n<bye> ::= 'b'\n<done> ::= 'd'\n" + PARTIES3, {"A"}),
    "sliced2": ("<start> ::= <A:S:hello> <mid>* <A:S:bye>\n<mid> ::= <S:X:log> | <X:S:ack> | <S:A:data> <A:S:ok>\n<hello> ::= 'h'\n<log> ::= 'l'\n<ack> ::= 'a'\n"
                "<data> ::= 'd'\n<ok> ::= 'o'\n<bye> ::= 'b'\n" + PARTIES3, {"A"}),
}
for _k, (_text, _keep) in SLICED.items():
    PROTO_SPECS[_k] = _text
SPEC = os.environ.get("H_SPEC", "fore")
DEPTH = int(os.environ.get("H_DEPTH", "3"))
G = load(PROTO_SPECS[SPEC])
G_REF = G  # the IR the reference is computed from
KEEP = None
if SPEC in SLICED:
    from fandango.language.parse.slice_parties import slice_parties

    KEEP = SLICED[SPEC][1]
    # Reading a protocol spec already slices it to the fuzzer-controlled parties (truncate_invisible_packets ->
    # slice_parties): G above IS the really sliced grammar.  The reference needs the unsliced IR: the same spec
    # text with every party declared fuzzer-controlled, so that nothing is truncated at load time.
    G_REF = load(PROTO_SPECS[SPEC].replace("ConnectionMode.EXTERNAL", "ConnectionMode.OPEN").replace(
        "        super().__init__(connection_mode=ConnectionMode.OPEN)\n\n\nclass", "        super().__init__(connection_mode=ConnectionMode.OPEN)\n\n    def send(self, message, recipient):\n        pass\n\n\nclass"))
nodes_mod.MAX_REPETITIONS = 3


# ---- reference: message-level regular expression --------------------------------------------------
LETTERS = {}


def letter(sender, recipient, sym):
    key = (sender, recipient, sym)
    if key not in LETTERS:
        LETTERS[key] = chr(ord("A") + len(LETTERS))
    return LETTERS[key]


REMOVED = object()


def msg_re(node):
    """regex of the message-level language; with KEEP set, messages in which no kept party takes part are
    removed the way the documentation describes slicing: a removed alternative disappears, a removed element
    of a sequence disappears, a repetition of something removed disappears, an emptied rule disappears"""
    if isinstance(node, NonTerminalNode):
        if node.sender is not None:
            if KEEP is not None and node.recipient is not None and node.sender not in KEEP and node.recipient not in KEEP:
                return REMOVED
            return z3.Re(z3.StringVal(letter(node.sender, node.recipient, node.symbol.name())))
        return msg_re(G_REF.rules[node.symbol])
    if isinstance(node, TerminalNode):
        return z3.Re(z3.StringVal(""))
    if isinstance(node, Alternative):
        rs = [r for r in (msg_re(a) for a in node.alternatives) if r is not REMOVED]
        if not rs:
            return REMOVED
        return rs[0] if len(rs) == 1 else z3.Union(*rs)
    if isinstance(node, Concatenation):
        rs = [r for r in (msg_re(a) for a in node.nodes) if r is not REMOVED]
        if not rs:
            return REMOVED
        return rs[0] if len(rs) == 1 else z3.Concat(*rs)
    if isinstance(node, Repetition) and msg_re(node.node) is REMOVED:
        return REMOVED
    # * and + are capped by the tool's documented repetition cap (nodes.MAX_REPETITIONS), as in generation
    if isinstance(node, Star):
        return z3.Loop(msg_re(node.node), 0, nodes_mod.MAX_REPETITIONS)
    if isinstance(node, Plus):
        return z3.Loop(msg_re(node.node), 1, nodes_mod.MAX_REPETITIONS)
    if isinstance(node, Option):
        return z3.Option(msg_re(node.node))
    if isinstance(node, Repetition):
        hi = node.internal_max if node.internal_max is not None else nodes_mod.MAX_REPETITIONS
        return z3.Loop(msg_re(node.node), node.min, hi)
    raise TypeError(node)


RE = msg_re(G_REF.rules[NonTerminal("<start>")])
ALL_MSGS = sorted(LETTERS.items(), key=lambda kv: kv[1])
_cache = {}


def ref_query(hist):
    """(set of letters that may follow hist, hist is a complete interaction)"""
    if hist in _cache:
        return _cache[hist]
    nxt = set()
    for key, l in ALL_MSGS:
        s = z3.Solver()
        rest = z3.String("rest")
        s.add(z3.InRe(z3.Concat(z3.StringVal(hist + l), rest), RE))
        if str(s.check()) == "sat":
            nxt.add(l)
    s = z3.Solver()
    s.add(z3.InRe(z3.StringVal(hist), RE))
    complete = str(s.check()) == "sat"
    _cache[hist] = (nxt, complete)
    return nxt, complete


# ---- real code --------------------------------------------------------------------------------------
FORECASTER = PacketForecaster(G)


def options_of(pred):
    out = []
    for party in sorted(pred.parties_to_packets):
        fnt = pred.parties_to_packets[party]
        for nt in sorted(fnt.nt_to_packet, key=lambda n: n.name()):
            pk = fnt.nt_to_packet[nt]
            out.append((party, pk.node.recipient, nt.name(), pk))
    return out


def follow(choices):
    """walk the protocol along `choices`; returns list of (history letters, offered letters, complete?)"""
    tree = DerivationTree(NonTerminal("<start>"))
    hist = ""
    trace = []
    for step in range(len(choices) + 1):
        pred = FORECASTER.predict(tree)
        opts = options_of(pred)
        offered = set(letter(s, r, n) for s, r, n, _ in opts)
        trace.append((hist, offered, len(pred.complete_trees) > 0))
        if step == len(choices):
            break
        c = choices[step]
        if not (0 <= c < len(opts)):
            raise IgnoreAttempt("choice out of range")
        s, r, n, pk = opts[c]
        path = sorted(pk.paths, key=lambda p: repr(p))[0]
        new_tree = path.tree.deepcopy() if hasattr(path.tree, "deepcopy") else path.tree
        msg = DerivationTree(NonTerminal(n), [DerivationTree(Terminal(str(G.rules[NonTerminal(n)].symbol.value()) if isinstance(G.rules[NonTerminal(n)], TerminalNode) else "x"))],
                             sender=s, recipient=r)
        new_tree.append(path.path[1:-1], msg)
        tree = new_tree
        hist += letter(s, r, n)
    return trace


def forecasts_match(choices: List[int]) -> bool:
    """
    pre: len(choices) <= DEPTH and all(0 <= c <= 3 for c in choices)
    post: _
    """
    exclude_known("forecasts_match", choices=choices, SPEC=SPEC)
    for hist, offered, complete in follow(choices):
        want_next, want_complete = ref_query(hist)
        if offered != want_next:
            return False
        if hist != "" and complete != want_complete:
            return False
    return True


def reach(choices: List[int]) -> bool:
    """
    pre: len(choices) <= DEPTH and all(0 <= c <= 3 for c in choices)
    post: _
    """
    # twin: some history of maximal depth is reached and is complete
    tr = follow(choices)
    return not (len(choices) == DEPTH and tr[-1][2])


def obs(choices):
    return [(h, sorted(o), c) for h, o, c in follow(choices)], [(h, sorted(ref_query(h)[0]), ref_query(h)[1]) for h, o, c in follow(choices)]


CONFORMANCE = [("obs", [[0]]), ("obs", [[0, 0]]), ("obs", [[0, 0, 0]]), ("obs", [[]])]
