"""C01 (c): constraint-driven repair and the evolutionary operators keep trees inside the grammar.

Pipeline under test (all real code): Grammar.fuzz -> Evaluator.evaluate_individual -> Suggestion
.get_replacements (RepetitionBoundsSuggestion._insert_repetitions/_delete_repetitions,
EqualComparisonSuggestion) -> PopulationManager.fix_individual (DerivationTree.replace_multiple)
-> SimpleSubtreeCrossover / SimpleMutation on the results.
Symbolic: `choices` - every random draw (fuzz of the individual, fuzz inside the repair, operator
choices), consumed in order.  Oracle: independent derivation checker `valid` (the computed count of a
{expr} repetition is the generated constraint's business, not the grammar's); bookkeeping consistency.
Parameters: H_SPEC in REPAIR_SPECS, H_CHOICES, H_MODE (repair | crossover | mutate).
"""
import os
from typing import List

from harness.common import *  # noqa
from harness.h_tree import consistent, Draw
from fandango.evolution.evaluation import Evaluator
from fandango.evolution.population import PopulationManager
from fandango.evolution.crossover import SimpleSubtreeCrossover
from fandango.evolution.mutation import SimpleMutation
from fandango.evolution import GeneratorWithReturn
import fandango.language.grammar.nodes.alternative as A
import fandango.language.grammar.nodes.repetition as R
import fandango.language.grammar.nodes.terminal as TT
import fandango.evolution.crossover as XO
import fandango.evolution.mutation as MU
import fandango.constraints.repetition_bounds as RB

REPAIR_SPECS = {
    "rep2": '<start> ::= <n> ":" (<a> <b>){int(<n>)} ";"\n<n> ::= "0" | "1" | "2" | "3"\n<a> ::= "a"\n<b> ::= "b" | "c"\n',
    # a repeated group with terminals inside and at its END (new iterations must go after the whole last iteration)
    "rep3": '<start> ::= <n> ":" (<a> "=" <b> ";"){int(<n>)}\n<n> ::= "0" | "1" | "2" | "3"\n<a> ::= "a"\n<b> ::= "b" | "c"\n',
    "rep1": '<start> ::= <n> <item>{int(<n>)} <tail>\n<n> ::= "1" | "2" | "3"\n<item> ::= "i" | "j"\n<tail> ::= "z" | "zz"\nwhere str(<tail>) == "zz"\n',
    "eq": '<start> ::= <x> "-" <y>\n<x> ::= <d> | <d> <d>\n<y> ::= <d> | <d> <d>\n<d> ::= "0" | "1"\nwhere str(<x>) == str(<y>)\n',
    "range": '<start> ::= <lo> <hi> "[" <e>{int(<lo>), int(<hi>)} "]"\n<lo> ::= "0" | "1"\n<hi> ::= "2" | "3"\n<e> ::= "e" <f>?\n<f> ::= "f"\n',
}
SPEC = os.environ.get("H_SPEC", "rep2")
NCH = int(os.environ.get("H_CHOICES", "8"))
MODE = os.environ.get("H_MODE", "repair")
C0 = int(os.environ.get("H_C0", "-1"))  # >= 0: the first random draw is fixed per condition (conditions run in parallel)
G, CS = load_with_constraints(REPAIR_SPECS[SPEC])
nodes_mod.MAX_REPETITIONS = 3
from fandango.constraints.repetition_bounds import RepetitionBoundsConstraint
COMPUTED_REP_IDS.update(c.repetition_id for c in CS if isinstance(c, RepetitionBoundsConstraint))


class Rnd:
    def __init__(self, choices):
        self.c = choices
        self.i = 0

    def nxt(self):
        if self.i >= len(self.c):
            raise IgnoreAttempt("out of choices")
        v = self.c[self.i]
        self.i += 1
        return v

    def randint(self, a, b):
        v = self.nxt()
        if not (a <= v <= b):
            raise IgnoreAttempt("range")
        return v

    def choice(self, seq):
        v = self.nxt()
        if not (0 <= v < len(seq)):
            raise IgnoreAttempt("range")
        return seq[v]

    def random(self):
        return 0.5


def clear(cs):
    for c in cs:
        if hasattr(c, "cache"):
            c.cache.clear()


def pipeline(choices):
    """returns the list of trees produced, in order"""
    r = Rnd(choices)
    saved = (A.random, R.random, TT.random, XO.random, MU.random, RB.random)
    A.random = R.random = TT.random = XO.random = MU.random = RB.random = r
    produced = []
    try:
        clear(CS)
        t = G.fuzz("<start>", 30)
        produced.append(t)
        ev = Evaluator(G, CS, 1.0, 0, 0.0)
        ys, ret = GeneratorWithReturn(ev.evaluate_individual(t)).collect()
        pm = PopulationManager(G, "<start>")
        t2, n = pm.fix_individual(t, ret[2])
        produced.append(t2)
        if MODE == "repair2":
            ys2, ret2 = GeneratorWithReturn(ev.evaluate_individual(t2)).collect()
            t3, n3 = pm.fix_individual(t2, ret2[2])
            produced.append(t3)
        elif MODE == "crossover":
            res = SimpleSubtreeCrossover().crossover(G, t, t2)
            if res is not None:
                produced.extend(res)
        elif MODE == "mutate":
            gen = SimpleMutation().mutate(t2, G, ev.evaluate_individual)
            try:
                while True:
                    next(gen)
            except StopIteration as e:
                produced.append(e.value)
    finally:
        A.random, R.random, TT.random, XO.random, MU.random, RB.random = saved
    if r.i != len(choices):
        raise IgnoreAttempt("unused choices")
    return produced


def stays_in_grammar(choices: List[int]) -> bool:
    """
    pre: len(choices) <= NCH and all(0 <= c <= 3 for c in choices) and (C0 < 0 or (len(choices) > 0 and choices[0] == C0))
    post: _
    """
    exclude_known("stays_in_grammar", choices=choices, SPEC=SPEC, MODE=MODE)
    for t in pipeline(choices):
        if not (t.symbol.is_non_terminal and t.symbol.name() == "<start>"):
            return False
        if not valid(G, t) or not no_helper_symbols(t):
            return False
        if not consistent(t):
            return False
    return True


def reach(choices: List[int]) -> bool:
    """
    pre: len(choices) <= NCH and all(0 <= c <= 3 for c in choices) and (C0 < 0 or (len(choices) > 0 and choices[0] == C0))
    post: _
    """
    # twin: a repair actually changed the tree
    ts = pipeline(choices)
    return not (len(ts) >= 2 and ts[0].to_string() != ts[1].to_string())


def obs(choices):
    return [t.to_string() for t in pipeline(choices)], [valid(G, t) for t in pipeline(choices)]


def _record(seed):
    import random as _r

    rr = _r.Random(seed)
    seq = []

    class Rec:
        def randint(self, a, b):
            v = rr.randint(a, b)
            seq.append(v)
            return v

        def choice(self, xs):
            v = rr.randrange(len(xs))
            seq.append(v)
            return xs[v]

        def random(self):
            return 0.5

    saved = (A.random, R.random, TT.random, XO.random, MU.random, RB.random)
    A.random = R.random = TT.random = XO.random = MU.random = RB.random = Rec()
    global Rnd
    keep = Rnd
    try:
        class Pass(Rec):
            def __init__(self, _):
                self.i = 0
        # run the pipeline with the recorder standing in for Rnd
        Rnd = lambda c: type("X", (), {"randint": Rec().randint, "choice": Rec().choice, "random": Rec().random, "i": 0})()  # noqa
        try:
            pipeline([])
        except Exception:
            pass
    finally:
        Rnd = keep
        A.random, R.random, TT.random, XO.random, MU.random, RB.random = saved
    return seq


CONFORMANCE = []
if os.environ.get("VERIF_CONFORM"):
    for seed in range(6):
        s = _record(seed)
        if 0 < len(s) <= NCH + 4 and all(0 <= c <= 3 for c in s):
            CONFORMANCE.append(("obs", [s]))
