"""C10 - tree bookkeeping stays consistent under edits; edits never alias."""
from engine.driver import Cond, Run, source_fingerprint

FILES = ["fandango/language/tree.py", "fandango/language/search.py", "fandango/language/tree_value.py",
         "fandango/evolution/mutation.py", "fandango/evolution/crossover.py", "fandango/language/symbols/symbol.py"]


def run(tier):
    run = Run("C10", tier)
    run.confirm_known()
    q = tier == "quick"
    to = 600 if q else 3600
    conds = []
    for shape in range(3):
        for op0 in range(16):
            if q and not (shape in (0, 2) and op0 not in (12, 13) or shape == 0 or (shape == 1 and op0 in (3, 5, 11))):
                continue  # quick tier: shapes 0 and 2 for all cheap first operations, crossover/mutation first on shape 0, shape 1 (sender) for 3 ops
            if q and shape == 2 and op0 in (12, 13):
                continue
            conds.append(Cond("h_tree.py", "bookkeeping", to, twin="reach" if (op0 in (5, 9, 11) and shape == 0) else None,
                              path_timeout=to / 2, env=dict({"H_OP0": str(op0), "H_SHAPE": str(shape), "H_OPS": "2"},
                                                            **({"H_MAXARG": "3", "H_LATER": "0,1,2,3,6,7,11,13"} if q else {"H_MAXARG": "4"}))))
    # constraint-driven repair must leave the individual it repairs untouched, too (inputs and outputs of the
    # repair pipeline are checked for consistent parent links / sizes / hashes)
    for spec in ("rep2", "range"):
        conds.append(Cond("h_repair.py", "stays_in_grammar", to, path_timeout=to / 2, env={"H_SPEC": spec, "H_MODE": "repair2", "H_CHOICES": "8"}))
    run.run_conditions(conds, conformance_harnesses=["h_tree.py"])
    run.encoded = ["DerivationTree.add_child/set_children/symbol.setter/sender.setter/recipient.setter/invalidate_hash/__hash__/__eq__/"
                   "size/deepcopy/__getitem__/split_end/prefix/replace/replace_multiple/get_choices_path/find_all_nodes/flatten/value",
                   "SliceTree", "RuleSearch/ItemSearch/AttributeSearch/DescendantAttributeSearch.find",
                   "SimpleSubtreeCrossover.crossover", "SimpleMutation.mutate", "Grammar.fuzz (mutation)", "RepetitionBoundsSuggestion.get_replacements/_delete_repetitions/_insert_repetitions + fix_individual (input individual unchanged)", "TreeValue.__hash__/__eq__"]
    run.extra["source_sha256_16"] = source_fingerprint(FILES)
    run.bounds = {"initial trees": "3 shapes (<= 7 nodes; one with sender, one mixing 'x' / b'x' / bit leaves)",
                  "operations": "16 codes: add_child, set_children, symbol=, sender=, recipient=, deepcopy, slicing/indexing, selector searches, "
                                "value/hash, split_end, prefix, replace, crossover, mutation, switch current tree, path accessors",
                  "sequence length": 2, "operand": "node index 0..3 (quick) / 0..4 (mod size)", "later operations (quick)": "add_child, set_children, symbol=, sender=, slicing, searches, replace, mutation"}
    run.outside = ["longer operation sequences", "RepetitionBoundsSuggestion repairs (see C01 operator harness)",
                   "parser-produced trees (ParserDerivationTree skips size updates by design)"]
    run.assumptions = ["finite operand domains -> the engine exhausts the sequences by path splitting",
                       "oracle: from-scratch recount / rebuild / structural comparison in harness/h_tree.py",
                       "evolutionary operators' random draws replaced by a deterministic selector driven by the symbolic operand"]
    return run.finish(
        "Bounded symbolic execution of sequences of public tree operations on the real DerivationTree; after every step every tree "
        "object the harness holds (including an 'already emitted' copy) must have size/hash/equality equal to from-scratch "
        "recomputation and consistent parent links, and read-only accessors / copy-producing operators must leave their inputs "
        "identical (object identities included).",
        "one evaluation = one explored execution path (an operation sequence); non-trivial = paths of main conditions")
