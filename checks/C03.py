"""C03 - a tree that satisfies all constraints is accepted (threshold completeness), E2."""
import json
import os
import random
import struct
import time

import z3

from engine.driver import Run, Cond, ROOT, source_fingerprint
from checks.evalmodel import Model, native_eval, Untranslatable, F64

SHAPES = [(1, 0), (0, 1), (1, 1), (2, 1), (1, 2), (2, 2), (3, 0), (0, 3)]


def fp_to_hex(model, var):
    v = model.eval(var, model_completion=True)
    # exact: sign/exponent/significand bit-vectors -> IEEE bits
    bits = model.eval(z3.fpToIEEEBV(var), model_completion=True).as_long()
    return struct.unpack(">d", bits.to_bytes(8, "big"))[0].hex()


def validate_translator(run, rnd, per_shape):
    """push concrete vectors through the real Evaluator and through the generated formula"""
    n = 0
    mism = []
    for (h, r) in SHAPES:
        m = Model(h, r, T=50)
        cases = []
        for _ in range(per_shape):
            def one():
                t = rnd.randint(1, 12)
                s = t if rnd.random() < 0.5 else rnd.randint(0, t)
                return [s, t, rnd.random() < 0.15]
            cases.append({"h": [one() for _ in range(h)], "r": [one() for _ in range(r)]})
        nat = native_eval(cases)
        fv = z3.FP("fv", F64)
        for case, nres in zip(cases, nat):
            res, mod = m.check(m.pin(case) + [m.fitness_is(fv)])
            if res != "sat":
                mism.append({"case": case, "formula": res})
                continue
            fx = fp_to_hex(mod, fv)
            res2, _ = m.check(m.pin(case) + [m.emitted()])
            if fx != nres["fitness"] or (res2 == "sat") != (nres["yielded"] > 0):
                mism.append({"case": case, "formula": [fx, res2], "real": nres})
            n += 1
        run.extra["smt_queries"] = run.extra.get("smt_queries", 0) + m.queries
        run.extra["solver_s"] = run.extra.get("solver_s", 0) + m.solver_s
    if mism:
        run.errors.append(f"translator validation: {len(mism)} mismatches, e.g. {mism[0]}")
    run.extra["translator_validation_vectors"] = n
    return n


def class_lemma(run, K):
    """(a) ConstraintFitness.fitness() of a satisfied constraint (solved == total in 1..1000) is exactly 1.0;
    (b) _evaluate_constraints over k constraints whose fitness() is 1.0 returns exactly 1.0, k = 1..K.
    Together: the per-class fitness of an all-satisfied class is 1.0 (the summary used for symbolic counts)."""
    one = z3.FPVal(1.0, F64)
    fv = z3.FP("fv", F64)
    m = Model(entry="quotient", T=1000)
    res, mod = m.check([m.q[0] == m.q[1], m.fitness_is(fv), z3.Not(z3.fpEQ(fv, one))], timeout_s=600)
    run.extra["smt_queries"] = run.extra.get("smt_queries", 0) + m.queries
    run.extra["solver_s"] = run.extra.get("solver_s", 0) + m.solver_s
    if res != "unsat":
        run.errors.append(f"quotient lemma: {res} {mod}")
    ok = 0
    for k in range(1, K + 1):
        m = Model(h=k, entry="class", all_satisfied=True, unit_fitness=True)
        res, mod = m.check([m.fitness_is(fv), z3.Not(z3.fpEQ(fv, one))], timeout_s=300)
        run.extra["smt_queries"] = run.extra.get("smt_queries", 0) + m.queries
        run.extra["solver_s"] = run.extra.get("solver_s", 0) + m.solver_s
        if res == "unsat":
            ok += 1
        else:
            run.errors.append(f"class lemma for k={k}: {res} {mod}")
            break
    run.extra["class_lemma_k"] = ok
    return ok


def run(tier):
    run = Run("C03", tier)
    run.confirm_known()
    rnd = random.Random(run.seed)
    N = 64 if tier == "quick" else 1000
    K = 12 if tier == "quick" else 64
    try:
        nvec = validate_translator(run, rnd, 26 if tier == "quick" else 60)
        class_lemma(run, K)
        for entry in ("evaluate_individual", "io"):
            m = Model(symbolic_counts=True, N=N, entry=entry)
            run.encoded = sorted(set(run.encoded) | set(m.interp.encoded))
            # reachability witness: the yield is reachable in the model
            res, mod = m.check([m.emitted()])
            if res != "sat":
                run.errors.append(f"{entry}: vacuous model - the yield is unreachable ({res})")
            found = []
            extra = []
            for _ in range(3):  # look for up to 3 different (h, r) witnesses
                res, mod = m.check([m.not_emitted()] + extra)
                if res == "unsat":
                    break
                if res != "sat":
                    run.errors.append(f"{entry}: solver answered {res} for the completeness query (N={N})")
                    break
                h, r = mod.eval(m.h, model_completion=True).as_long(), mod.eval(m.r, model_completion=True).as_long()
                found.append((h, r))
                extra.append(z3.Or(m.h != h, m.r != r))
            run.extra["smt_queries"] = run.extra.get("smt_queries", 0) + m.queries
            run.extra["solver_s"] = run.extra.get("solver_s", 0) + m.solver_s
            run.samples.append({"entry": entry, "query": f"exists h,r<={N}: all constraints satisfied and first seen, tree not yielded",
                                "answer": "unsat" if not found else f"sat {found}"})
            for (h, r) in found[:1]:
                # replay against the real Evaluator, all declaration orders
                cases = [{"h": [[1, 1, False]] * h, "r": [[1, 1, False]] * r, "order": o} for o in (None, "rep_first", "interleaved")]
                nat = native_eval(cases, io=(entry == "io"))
                if any(o["yielded"] == 0 for o in nat):
                    d = os.path.join(__import__("engine.driver").driver.OUT, "replays", "C03")
                    os.makedirs(d, exist_ok=True)
                    path = os.path.join(d, f"{entry}_h{h}_r{r}.json")
                    json.dump({"kind": "script", "script": "harness/r_eval.py",
                               "args": {"cases": cases, "io": entry == "io", "expect_all_yield": True},
                               "observed": nat, "note": f"{h} satisfied hard + {r} satisfied repetition-bound constraints: fitness {nat[0]['fitness']} < 1.0, nothing yielded"},
                              open(path, "w"), indent=1)
                    run.violations.append(path)
                    print(f"VIOLATION property=C03 replay={path}", flush=True)
                else:
                    run.errors.append(f"{entry}: solver witness h={h}, r={r} does not reproduce natively: {nat}")
    except Untranslatable as e:
        run.errors.append(f"Untranslatable: {e}")
    # E1: the real constructor + evaluate_individual over every declaration order (small counts)
    L = "6" if tier == "quick" else "10"
    run.run_conditions([
        Cond("h_eval_order.py", "accepted", 600 if tier == "quick" else 2400, twin="reach", env={"H_LEN": L}),
        Cond("h_eval_order.py", "accepted", 600 if tier == "quick" else 2400, twin="reach", env={"H_LEN": L, "H_IO": "1"}),
        # the constraints a search is started with are exactly the spec's plus this call's extras (API history)
        Cond("h_api.py", "calls_are_independent", 600 if tier == "quick" else 2400, twin="reach", env={"H_CALLS": "2" if tier == "quick" else "3"}),
    ] + [
        # the generation loop's repair + re-evaluation statements (extracted from the current source): every individual evaluated there
        # for the first time is reported
        Cond("h_genloop.py", "first_evaluation_reports", 900 if tier == "quick" else 2400, twin="reach" if seen == 0 else None, env={"H_SEEN": str(seen)})
        for seen in range(4)
    ], conformance_harnesses=["h_eval_order.py", "h_api.py", "h_genloop.py"])
    run.encoded += ["E1: the repair + re-evaluation statements of Fandango._generate_simple (extracted by markers from the current source): Evaluator.evaluate_individual, "
                    "PopulationManager.fix_individual, Evaluator.evaluate_population, on every 2-individual population over the 16 trees of a 2-digit grammar and every "
                    "'already evaluated' pattern",
                    "E1: Fandango.init_population (api.py) under a symbolic history of calls with/without extra constraints",
                    "E1: Evaluator.__init__ + evaluate_individual / IoEvaluator.evaluate_individual executed by CrossHair over all hard/repetition-bound declaration orders of length <= " + L]
    run.extra["smt_queries_nontrivial"] = run.extra.get("smt_queries", 0)
    run.extra["source_sha256_16"] = source_fingerprint(["fandango/evolution/evaluation.py", "fandango/constraints/fitness.py"])
    run.bounds = {"h,r": f"0..{N} (16-bit, h+r>=1)", "soft constraints": 0, "class lemma k": f"1..{K}", "per-constraint total": "<= 1000",
                  "translator validation vectors": run.extra.get("translator_validation_vectors")}
    run.outside = ["specs with soft constraints (excluded by the property)", "more than N constraints per class",
                   "DistanceAwareConstraintFitness values other than exactly 1.0 (a satisfied comparison reports solved == total)",
                   "protocol trees in IoEvaluator (message-coverage gating is not part of C03)"]
    run.assumptions = ["Float64/RNE semantics of z3 match CPython float arithmetic (validated by the concrete vectors)",
                       "a satisfied constraint reports solved == total >= 1", "stubs: caches miss, tree not seen before, logging no-op"]
    return run.finish(
        "AST->SMT translation (engine/pysym.py) of Evaluator.evaluate_individual/_evaluate_constraints/ConstraintFitness.fitness "
        "and IoEvaluator.evaluate_individual from the current source; z3 decides over ALL counts h, r within the bound whether an "
        "all-satisfied, first-seen tree can fail to be yielded (Float64, RNE). Translator validated against the real Evaluator on "
        "random concrete vectors (bit-identical floats).",
        "evaluations = SMT queries discharged (validation pins + lemma + completeness queries); non-trivial = all of them")
