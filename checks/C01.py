"""C01 - every generated tree is a derivation of the spec's grammar."""
from engine.driver import Cond, Run, source_fingerprint

FILES = ["fandango/language/grammar/grammar.py", "fandango/language/grammar/nodes/alternative.py",
         "fandango/language/grammar/nodes/concatenation.py", "fandango/language/grammar/nodes/repetition.py",
         "fandango/language/grammar/nodes/non_terminal.py", "fandango/language/grammar/nodes/terminal.py",
         "fandango/language/tree.py", "fandango/evolution/population.py", "fandango/evolution/mutation.py",
         "fandango/evolution/crossover.py", "fandango/constraints/repetition_bounds.py", "fandango/constraints/comparison.py"]


def run(tier):
    run = Run("C01", tier)
    run.confirm_known()
    q = tier == "quick"
    to = 900 if q else 3600
    conds = []
    for spec in (("list", "nested", "prefix", "open", "rec") if q else ("list", "nested", "prefix", "open", "rec", "uni")):
        conds.append(Cond("h_fuzz.py", "derivation", to, twin="reach" if spec in ("list", "nested", "rec") else None, path_timeout=to / 2,
                          env={"H_SPEC": spec, "H_BUDGETS": "0,2,5,12" if q else "0,1,2,3,5,8,12,30", "H_CHOICES": "8" if q else "14",
                               "H_RSIZE": "7"}))
    plan = [("rep2", "repair2", 8), ("rep3", "repair2", 8), ("rep1", "repair2", 9), ("eq", "repair2", 8), ("range", "repair2", 8),
            ("eq", "mutate", 8)]
    if not q:
        # sized on this machine: rep2/mutate with 12 draws = 9195 paths, 33 min; crossover with 10-11 draws did not finish in 30 min
        plan += [("rep1", "mutate", 10), ("rep1", "crossover", 9), ("eq", "crossover", 8), ("rep2", "crossover", 8), ("rep2", "mutate", 12), ("range", "crossover", 8), ("range", "mutate", 10)]
    first_draws = {"rep2": 4, "rep3": 4, "rep1": 3, "range": 2}  # number of values of the first draw (the count symbol's alternatives)
    for spec, mode, nch in plan:
        for c0 in ((2, 3) if (q and spec == "rep3") else range(first_draws.get(spec, 1))) if spec in first_draws else [-1]:
            conds.append(Cond("h_repair.py", "stays_in_grammar", to, twin="reach" if (mode == "repair2" and c0 in (-1, 1)) else None, path_timeout=to / 2,
                              env={"H_SPEC": spec, "H_MODE": mode, "H_CHOICES": str(nch), "H_C0": str(c0)}))
    # (a) inductive unit harnesses, one per fuzz() implementation (stub sub-nodes)
    for fn in ("alternative_step", "concatenation_step", "nonterminal_step"):
        conds.append(Cond("h_nodes.py", fn, to, path_timeout=to / 2))
    for kind in (("rep", "star") if q else ("rep", "star", "plus", "option")):
        conds.append(Cond("h_nodes.py", "repetition_step", to, twin="reach_rep" if kind == "rep" else None, path_timeout=to / 2, env={"H_KIND": kind}))
    run.run_conditions(conds, conformance_harnesses=["h_nodes.py"] + [("h_fuzz.py", {"H_SPEC": s}) for s in ("list", "nested", "rec")]
                       + [("h_repair.py", {"H_SPEC": "rep2", "H_CHOICES": "12"})])
    run.encoded = ["unit: Alternative.fuzz, Concatenation.fuzz, Repetition.fuzz (incl. override_* arguments), Star/Plus/Option.fuzz, NonTerminalNode.fuzz", "Grammar.fuzz/prime", "Alternative/Concatenation/Repetition/Plus/Star/Option/NonTerminalNode/TerminalNode.fuzz",
                   "Evaluator.evaluate_individual", "RepetitionBoundsConstraint.fitness", "RepetitionBoundsSuggestion.get_replacements/"
                   "_insert_repetitions/_delete_repetitions", "ComparisonConstraint.fitness", "EqualComparisonSuggestion.get_replacements",
                   "PopulationManager.fix_individual", "DerivationTree.replace_multiple", "SimpleSubtreeCrossover.crossover", "SimpleMutation.mutate"]
    run.extra["source_sha256_16"] = source_fingerprint(FILES)
    run.bounds = {"node units": "Alternative (<= 3 stub alternatives), Concatenation (<= 3), Repetition/Star (+ Plus/Option thorough) with min,max <= 3, "
                  "override start <= 2, override iterations <= 3, NonTerminalNode; stub distances {0,1,3,inf}; budgets {0,1,2,5,100}; <= 3 draws",
                  "plain generation": "6 grammars of the family; every random draw symbolic (<= 8 / 14 draws); node budgets {0,2,5,12} / {0,1,2,3,5,8,12,30}; MAX_REPETITIONS = 2",
                  "repair/operators": "5 specs (computed repetition over a 2-symbol group, over a group with inner and trailing terminals, computed repetition + equality constraint, equality constraint, "
                                      "computed range); pipeline fuzz -> evaluate -> repair -> evaluate -> repair | crossover | mutation with every draw symbolic; MAX_REPETITIONS = 3"}
    run.outside = ["regex terminals (instances come from the third-party exrex generator)", "generators (C16)", "Gmutator settings other than the default 0.0",
                   "the unmechanised induction from per-run checks to all population histories", "whole evolutionary runs"]
    run.assumptions = ["random.random() stub returns 0.5 (Gmutator probabilities are 0.0 by default)", "oracle: independent derivation checker harness/common.py valid(); "
                       "the count of a computed {expr} repetition is the generated constraint's business", "CrossHair + plug-in conformance gate; z3 5.1"]
    return run.finish(
        "Bounded symbolic execution of Grammar.fuzz and of the repair/crossover/mutation pipeline with every random draw a symbolic variable: each "
        "path is one seed-equivalence class, so exhaustion covers all seeds within the draw bound; every produced tree must be a derivation "
        "(independent checker), rooted at the start symbol, free of helper symbols, with consistent bookkeeping.",
        "one evaluation = one explored execution path (a draw sequence); non-trivial = paths of main conditions")
