"""C18 - Fandango instances in one process do not influence each other."""
from engine.driver import Cond, Run, source_fingerprint

FILES = ["fandango/language/grammar/nodes/__init__.py", "fandango/language/grammar/grammar.py", "fandango/evolution/adaptation.py",
         "fandango/evolution/algorithm.py", "fandango/language/grammar/nodes/repetition.py", "fandango/language/symbols/terminal.py"]


def run(tier):
    run = Run("C18", tier)
    run.confirm_known()
    q = tier == "quick"
    to = 900 if q else 3000
    conds = [
        Cond("h_isolation.py", "no_leak", to, twin="reach", path_timeout=to / 2, env={"H_GENS": "1"}),
        Cond("h_isolation.py", "no_leak", to, twin="reach", path_timeout=to / 2, env={"H_GENS": "2", "H_SETS": "small"}),
        Cond("h_isolation.py", "parse_isolation", to, twin="reach_parse", path_timeout=to / 2, env={"H_SEQ": "3" if q else "4"}),
    ]
    run.run_conditions(conds, conformance_harnesses=["h_isolation.py"])
    run.encoded = ["Fandango.generate (try/finally around the run)", "the adaptive block at the end of _generate_simple (extracted from the current source by line markers)",
                   "AdaptiveTuner.update_parameters/reset_parameters", "Grammar.set_max_repetition/get_max_repetition", "Repetition.max",
                   "IterativeParser._process (rule table of instance B)", "Grammar.parse_forest on two spec objects (regex vs literal terminal with the same text)"]
    run.extra["source_sha256_16"] = source_fingerprint(FILES)
    run.bounds = {"adaptive step": "previous/current best fitness and diversity from finite sets around the tuner's thresholds (0.5 % improvement, 0.1 diversity); "
                  "1 generation with the full sets, 2 generations with reduced sets; run exhausted or abandoned after the first solution and closed",
                  "parse isolation": "symbolic sequences of <= 3 (4) parse requests over 2 spec objects x 3 words"}
    run.outside = ["the surrounding selection/crossover/mutation code of a generation (does not touch process-wide state; not executed)",
                   "interleaving two runs generation by generation (the cap is process-wide by design while a run is active)",
                   "FandangoIO singletons and logger state", "a run that is neither exhausted nor closed (generator still alive)"]
    run.assumptions = ["module-level mutable state was located by scanning src/fandango for module-level assignments mutated at run time: nodes.MAX_REPETITIONS "
                       "(observed), FandangoIO._instances and logger level (do not influence results)",
                       "finite value sets instead of symbolic floats (CrossHair's precise float model needs minutes per query)", "CrossHair + plug-in conformance gate"]
    return run.finish(
        "Bounded symbolic execution of the real adaptive step inside the real generate(): for every fitness/diversity trajectory in the bound and both "
        "ways of ending the run, every observable of an unrelated spec object B (repetition caps, compiled parse table, tuner start values) is "
        "unchanged afterwards; and parse answers of two spec objects with look-alike terminals are independent of the request history.",
        "one evaluation = one explored execution path; non-trivial = paths of main conditions")
