"""C07 - constraint verdicts follow the documented selector/quantifier semantics."""
from engine.driver import Cond, Run, source_fingerprint

FILES = ["fandango/constraints/base.py", "fandango/constraints/expression.py", "fandango/constraints/comparison.py",
         "fandango/constraints/conjunction.py", "fandango/constraints/disjunct.py", "fandango/constraints/exists.py",
         "fandango/constraints/forall.py", "fandango/constraints/implication.py", "fandango/language/search.py",
         "fandango/language/parse/convert.py", "fandango/evolution/evaluation.py"]
NPROG = 38
# programs that never hold on a two-record tree (twin asks for a violated tree instead)
NEVER_TRUE_2REC = {9: False}
ENCODED = ["ExpressionConstraint/ComparisonConstraint/ConjunctionConstraint/DisjunctionConstraint/ForallConstraint/ExistsConstraint.fitness",
           "GeneticBase.combinations/check/get_hash", "RuleSearch/AttributeSearch/DescendantAttributeSearch/ItemSearch/StarSearch/LengthSearch.find",
           "Evaluator.evaluate_individual", "DerivationTree.__hash__/__eq__/value", "TreeValue.to_string/to_int/__eq__"]


def conds_for(progs, tier, fn="verdict", twins=True):
    q = tier == "quick"
    to = 900 if q else 3600
    out = []
    for p in progs:
        env = {"H_PROG": str(p), "H_R2": "2" if q else "3"}
        if q and p == 11:
            env["H_REACH_TRUE"] = "0"  # needs two values in the second record: the twin asks for a violated tree instead
        if p in (9, 31, 32):
            twin = None  # constant programs ('no match = nothing to violate' / exists over an empty selection)
        else:
            twin = "reach" if twins else None
        out.append(Cond("h_constraints.py", fn, to, twin=twin, path_timeout=to / 2, env=env))
    return out


QUICK_SKIP = {3, 5, 12, 13, 15, 25, 32, 35}  # near-duplicates of other programs; run in the thorough tier only
TWINS = {0, 8, 14, 17, 21, 24, 30}


def run(tier):
    run = Run("C07", tier)
    run.confirm_known()
    progs = [p for p in range(NPROG) if not (tier == "quick" and p in QUICK_SKIP)]
    conds = conds_for(progs, tier)
    for c in conds:
        if int(c.env["H_PROG"]) not in TWINS:
            c.twin = None
    run.run_conditions(conds, conformance_harnesses=["h_constraints.py"])
    run.encoded = ENCODED
    run.extra["source_sha256_16"] = source_fingerprint(FILES)
    run.bounds = {"constraint programs": f"{NPROG} fixed texts covering plain symbols, ., .., [i], [i:j], *<A>, |..|, len(*..), any/all comprehensions, "
                  "exists/forall (nested, rebinding), and/or/not, raising sub-expressions; each read by the real reader, eager and lazy",
                  "trees": "1 or 2 records, each key + 1..2 values over the leaf alphabet {0,5,a}" + (" (second record <= 1 value in quick tier)" if tier == "quick" else "")}
    run.outside = ["enumerating constraint PROGRAMS is outside the solver (a fixed list)", "other grammars / deeper trees", "'->' (deprecated, rejected by the reader)",
                   "`or` over operands that raise (the documentation does not fix the reading)"]
    run.assumptions = ["finite leaf alphabet: hashing realises leaf contents, the engine exhausts the alphabet by path splitting",
                       "reference evaluator in harness/h_constraints.py (own traversal; per-combination truthiness; raising = failing)",
                       "CrossHair + plug-in conformance gate; z3 5.1"]
    return run.finish(
        "Bounded symbolic execution of the real constraint objects (eager and lazy) on symbolic trees; for every tree in the bound, "
        "check() must equal a reference evaluator written from the documentation, fitness() < 1.0 when violated, and a one-constraint "
        "Evaluator yields the tree exactly when the constraint holds.",
        "one evaluation = one explored execution path (a tree); non-trivial = paths of main conditions")
