"""shared pieces of the parser-family checks (C04, C05, C06, C13)"""
PARSER_FILES = [
    "fandango/language/grammar/parser/iterative_parser.py",
    "fandango/language/grammar/parser/column.py",
    "fandango/language/grammar/parser/parse_state.py",
    "fandango/language/grammar/parser/parser.py",
    "fandango/language/symbols/terminal.py",
    "fandango/language/tree.py",
    "fandango/language/tree_value.py",
]
PARSER_FUNCS = ["IterativeParser.new_parse/consume/_consume/predict/scan_bytes/complete/place_repetition_shortcut/"
                "to_derivation_tree/collapse/can_continue", "Column.add/update/find_dot/replace", "ParseState.*",
                "Terminal.check", "DerivationTree.__init__/set_children/to_string", "TreeValue.append/to_string"]
TRUST = ["CrossHair 0.0.110 + plug-in (engine/plugin.py) is faithful to CPython on this code: checked by the conformance gate",
         "z3 5.1 verdicts", "reference semantics in harness/common.py (valid, text_of, member, prefix_ends)"]
# (spec, quick len, thorough len)
STR_SPECS = [("prefix", 3, 5), ("list", 3, 4), ("nested", 3, 4), ("amb", 2, 3), ("rec", 3, 5), ("uni", 3, 4), ("open", 3, 5),
             ("nullstar", 2, 4), ("nullrule", 2, 4), ("nulltwice", 3, 4), ("nullopen", 2, 3), ("zeromin", 3, 4)]
REACH = {"amb": "1", "prefix": "4", "zeromin": "2", "nulltwice": "3"}  # longest word worth asking the twin for
RX_SPECS = [("rx1", "abc", 3, 4), ("rx2", "x1y", 4, 4), ("rxe", "ab", 3, 4), ("rxopt", "x1y", 3, 4), ("rxstar", "abx", 3, 4), ("rxuni", "a\xe9!", 4, 4)]  # (spec, alphabet, quick len, thorough len)
