"""C20 (in part) - protocol run: receive path, attribution and the send gate (units)."""
import z3

from engine.driver import Cond, Run, source_fingerprint
from checks.evalmodel import Model, Untranslatable

FILES = ["fandango/io/packetparser.py", "fandango/io/__init__.py", "fandango/io/navigation/packetforecaster.py",
         "fandango/evolution/evaluation.py", "fandango/language/grammar/parser/iterative_parser.py"]


def run(tier):
    run = Run("C20", tier)
    run.confirm_known()
    q = tier == "quick"
    to = 900 if q else 3000
    conds = [Cond("h_receive.py", "receive_ok", to, twin="reach" if late == 0 else None, path_timeout=to / 2,
                  env={"H_LEN": "2" if q else "3", "H_LATE": str(late)}) for late in range(3)] + [
             # message histories stay inside the protocol language: the forecast unit of C19 on the receive spec's shape
             Cond("h_forecast.py", "forecasts_match", to, path_timeout=to / 2, env={"H_SPEC": "pingpong", "H_DEPTH": "3" if q else "4"})]
    conds.append(Cond("h_iohist.py", "history_is_kept", to, twin="reach", path_timeout=to / 2, env={"H_CHOICES": "6"}))
    run.run_conditions(conds, conformance_harnesses=["h_receive.py", "h_iohist.py"])
    # send gate: IoEvaluator yields only when every hard / repetition-bound constraint is satisfied (E2)
    try:
        for (h, r) in ([(1, 0), (1, 1)] if q else [(1, 0), (0, 1), (1, 1), (2, 0), (2, 1)]):
            m = Model(h, r, abstract_fitness=True, first_seen=False, entry="io")
            r1, _ = m.check([m.emitted()], timeout_s=300)
            if r1 != "sat":
                run.errors.append(f"send gate {(h, r)}: vacuous model ({r1})")
            res, mod = m.check([m.emitted(), z3.Not(m.all_ok())], timeout_s=900 if q else 2400)
            run.extra["smt_queries"] = run.extra.get("smt_queries", 0) + m.queries
            run.extra["solver_s"] = run.extra.get("solver_s", 0) + m.solver_s
            run.samples.append({"send gate shape (h, r)": [h, r], "query": "IoEvaluator yields AND some constraint violated/raised", "answer": res})
            if res == "sat":
                run.errors.append(f"send gate {(h, r)}: solver found a yielding assignment with a violated constraint: {mod} (replay through C02's check)")
            elif res != "unsat":
                run.errors.append(f"send gate {(h, r)}: solver answered {res}")
    except Untranslatable as e:
        run.errors.append(f"Untranslatable: {e}")
    run.extra["smt_queries_nontrivial"] = run.extra.get("smt_queries", 0)
    run.encoded = ["parse_next_remote_packet/_find_next_fragment", "FandangoIO.add_receive/get_received_msgs/clear_by_party/get_full_fragments",
                   "IterativeParser.new_parse(hookin_parent)/consume/can_continue", "IoPopulationManager._generate_population_entry", "IoEvaluator.evaluate_individual + fix_individual on the extended history", "PacketForecaster.predict", "IoEvaluator.evaluate_individual (E2)"]
    run.extra["source_sha256_16"] = source_fingerprint(FILES)
    run.bounds = {"history integrity": "received <count> of 1-2 digits, every draw of generating and repairing the next fuzzer message symbolic (<= 6 draws)",
                  "receive path": "remote party B sends <= 2 (3) characters over {1,7,O,K,?}; one fragment of a third party interleaved at a symbolic position or absent; "
                  "0-2 of the fragments arrive only while the parser is waiting (delivered by the time.sleep stub); time.time advances 0.3 s per call",
                  "send gate": "h + r <= 2 (3) stub constraints, totals <= 1000 via the quotient lemma"}
    run.outside = ["the threaded socket loop of _generate_io, real transports and thread interleavings inside add_receive (a lock-protected append)",
                   "the accept step re-evaluating constraints on the extended history (covered per constraint by C07/C02)", "which message Fandango chooses to send",
                   "bytes-level remote data"]
    run.assumptions = ["FandangoIO constructed directly (not through the per-environment singleton)", "time module of packetparser replaced by a stub: "
                       "time() strictly increasing, sleep() = environment step", "CrossHair + plug-in conformance gate; z3 5.1"]
    return run.finish(
        "In part (units of the mechanism the property rests on): bounded symbolic execution of the real receive path - for every remote text, interleaving and "
        "arrival schedule in the bound the returned tree spells exactly the consumed fragments of one sender in order, exactly those are removed from the "
        "buffer, attribution is the forecast's, and data fitting no expected type raises; z3 shows on the IoEvaluator formula that nothing is yielded (sent) "
        "with a violated constraint.",
        "evaluations = explored paths + SMT queries; non-trivial = paths of main conditions + queries")
