"""C06 - parsing terminates (state-count guard derived from the Earley bound)."""
from engine.driver import Cond, Run, source_fingerprint
from checks.parsefam import *


def run(tier):
    run = Run("C06", tier)
    run.confirm_known()
    conds = []
    to = 300 if tier == "quick" else 1800
    for spec, q, t in STR_SPECS:
        n = q if tier == "quick" else t
        for mode in ("complete", "incomplete"):
            if mode == "incomplete" and spec not in ("nullstar", "nullrule", "nested", "prefix"):
                continue
            conds.append(Cond("h_parse_str.py", "terminates", to, twin="reach_states", path_timeout=to / 2,
                              env={"H_SPEC": spec, "H_LEN": str(n), "H_MODE": mode}))
    for spec in ("nullplus", "nullnest", "nullseq"):
        for mode in ("complete", "incomplete"):
            conds.append(Cond("h_parse_str.py", "terminates", to, twin="reach_states" if mode == "complete" else None, path_timeout=to / 2,
                              env={"H_SPEC": spec, "H_LEN": "2" if tier == "quick" else "4", "H_MODE": mode}))
    for spec, alpha, ql, tl in RX_SPECS + [("rxnull", "ab", 3, 4)]:
        for mode in ("complete", "incomplete"):
            conds.append(Cond("h_parse_str.py", "terminates_fa", to, path_timeout=to / 2,
                              env={"H_SPEC": spec, "H_LEN": str(ql if tier == "quick" else tl), "H_ALPHA": alpha, "H_MODE": mode}))
    run.run_conditions(conds, conformance_harnesses=["h_parse_str.py"])
    run.encoded = PARSER_FUNCS
    run.extra["source_sha256_16"] = source_fingerprint(PARSER_FILES)
    run.bounds = {"word": "str over all code points", "max_len": {s: (q if tier == "quick" else t) for s, q, t in STR_SPECS},
                  "guard": "admitted states <= 8 * (#dotted rules) * (len+1)^2 + 64, counted by wrapping Column.add",
                  "modes": "whole forest in complete mode; prefix (INCOMPLETE) mode for the recursive/nullable specs"}
    run.outside = ["prefix (INCOMPLETE) mode on left-recursive grammars: the real parser builds an unboundedly deep tree there and ends with "
                   "RecursionError - it 'raises after finitely many steps', which the property allows; excluded from the symbolic bound because the "
                   "engine's recursion limit makes it too slow", "grammars whose own derivations are cyclic (infinitely ambiguous through a nullable user-written recursion)",
                   "regex terminals on words outside the stated finite alphabets", "inputs longer than the bound"]
    run.assumptions = TRUST + ["exceeding the state budget is reported as divergence; the replay runs the real parser natively under an alarm"]
    return run.finish(
        "Bounded symbolic execution of the real parser with Column.add counted: on every path (all words up to the bound) the "
        "number of admitted Earley states stays below a bound derived from the compiled rule table; the twin shows the counter is live.",
        "one evaluation = one explored execution path; non-trivial = paths of main conditions")
