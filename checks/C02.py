"""C02 - emitted solutions satisfy every hard constraint (threshold soundness E2 + exception path E1)."""
import z3

from engine.driver import Cond, Run, source_fingerprint
from checks.evalmodel import Model, Untranslatable, F64, native_eval
from checks.C07 import conds_for, ENCODED, FILES
from checks.C03 import validate_translator
import random

RAISING_PROGS = [0, 1, 4, 7, 17, 22, 26, 28, 29, 37]


def run(tier):
    run = Run("C02", tier)
    run.confirm_known()
    q = tier == "quick"
    rnd = random.Random(run.seed)
    shapes = [(1, 0), (0, 1), (1, 1), (2, 0), (0, 2)] if q else [(1, 0), (0, 1), (1, 1), (2, 0), (0, 2), (2, 1), (1, 2), (2, 2), (3, 0), (0, 3)]
    try:
        validate_translator(run, rnd, 13 if q else 40)
        one = z3.FPVal(1.0, F64)
        fv = z3.FP("fv", F64)
        # L1 (quotient lemma on the real ConstraintFitness.fitness): violated => fitness <= 1 - 2^-10
        m = Model(entry="quotient", T=1000)
        res, mod = m.check([m.q[0] != m.q[1], m.fitness_is(fv), z3.fpGT(fv, z3.FPVal(1.0 - 2.0 ** -10, F64))], timeout_s=900)
        run.extra["smt_queries"] = run.extra.get("smt_queries", 0) + m.queries
        run.extra["solver_s"] = run.extra.get("solver_s", 0) + m.solver_s
        if res != "unsat":
            run.errors.append(f"quotient lemma L1: {res} {mod}")
        run.samples.append({"lemma L1": "0<=s<t<=1000 => fp(s)/fp(t) <= 1-2^-10 on ConstraintFitness.fitness", "answer": res})
        for (h, r) in shapes:
            m = Model(h, r, abstract_fitness=True, first_seen=False)
            run.encoded = sorted(set(run.encoded) | set(m.interp.encoded))
            # reachability: the yield is reachable, and a non-emitting path with a violated constraint exists
            r1, _ = m.check([m.emitted(), m.all_ok()], timeout_s=600)  # a witness with every constraint satisfied: seconds, where the bare query takes minutes for three constraints
            if r1 != "sat":
                run.errors.append(f"shape {(h, r)}: vacuous model, yield unreachable ({r1})")
            res, mod = m.check([m.emitted(), z3.Not(m.all_ok())], timeout_s=900 if q else 2400)
            run.extra["smt_queries"] = run.extra.get("smt_queries", 0) + m.queries
            run.extra["solver_s"] = run.extra.get("solver_s", 0) + m.solver_s
            run.samples.append({"shape (h, r)": [h, r], "paths in the translated function": len(m.paths),
                                "query": "tree yielded AND (some constraint raised OR solved_i != total_i)", "answer": res})
            if res == "sat":
                case = {"h": [], "r": []}
                for kind, i, s_, t_, raised in m.per:
                    sv = mod.eval(s_, model_completion=True).as_long()
                    tv = mod.eval(t_, model_completion=True).as_long()
                    rz = bool(mod.eval(raised, model_completion=True))
                    case[kind].append([sv, tv, rz])
                nat = native_eval([case])
                if nat[0]["yielded"] > 0:
                    import json, os
                    from engine.driver import ROOT, OUT
                    d = os.path.join(__import__("engine.driver").driver.OUT, "replays", "C02")
                    os.makedirs(d, exist_ok=True)
                    path = os.path.join(d, f"threshold_h{h}_r{r}.json")
                    json.dump({"kind": "script", "script": "harness/r_eval.py", "args": {"cases": [case]}, "observed": nat,
                               "note": "a tree with an unsatisfied or raising constraint is yielded"}, open(path, "w"), indent=1)
                    run.violations.append(path)
                    print(f"VIOLATION property=C02 replay={path}", flush=True)
                else:
                    run.errors.append(f"shape {(h, r)}: solver witness {case} does not reproduce natively (abstraction too coarse?)")
            elif res != "unsat":
                run.errors.append(f"shape {(h, r)}: solver answered {res}")
    except Untranslatable as e:
        run.errors.append(f"Untranslatable: {e}")
    run.extra["smt_queries_nontrivial"] = run.extra.get("smt_queries", 0)
    # (b) the exception path through real constraint objects and the real Evaluator
    conds = conds_for(RAISING_PROGS, tier)
    for c in conds[2:]:
        c.twin = None
    # (c) two computed repetitions over the same item whose printed forms coincide: both bounds are enforced by the real Evaluator
    from engine.driver import Cond
    conds.append(Cond("h_tworeps.py", "both_bounds_enforced", 600, twin="reach"))
    run.run_conditions(conds, conformance_harnesses=["h_constraints.py", "h_tworeps.py"])
    run.encoded += ENCODED + ["Evaluator.__init__ + evaluate_individual + RepetitionBoundsConstraint.fitness on a spec with two computed repetitions over the same item (h_tworeps.py)"]
    run.extra["source_sha256_16"] = source_fingerprint(FILES + ["fandango/constraints/fitness.py"])
    run.bounds = {"threshold query": f"shapes (h, r) in {shapes}; per-constraint totals <= 1000 via lemma L1; soft constraints 0",
                  "exception path": f"programs {RAISING_PROGS} of the C07 family on trees with 1-2 records over leaf alphabet {{0,5,a}}"}
    run.outside = ["that search REACHES satisfying trees (liveness)", "whole evolutionary runs / generation histories", "more than 4 constraints in the threshold query",
                   "specs with soft constraints", "computed-repetition constraints on real trees (see C01 operator harness)"]
    run.assumptions = ["z3 Float64/RNE = CPython float (validated by concrete vectors on every run)",
                       "stub constraints: fitness() returns solved/total with 0<=solved<=total<=1000 or raises; caches miss",
                       "finite leaf alphabet for the E1 part; CrossHair + plug-in conformance gate"]
    return run.finish(
        "E2: z3 decides on the formula generated from Evaluator.evaluate_individual/_evaluate_constraints that a tree is never yielded when some "
        "hard/repetition-bound constraint is violated or raised (IEEE doubles; lemma cut validated separately). E1: real constraint objects and the "
        "real Evaluator on symbolic trees: a constraint whose evaluation raises for some combination reports failure, fitness < 1, and is not yielded.",
        "evaluations = SMT queries + explored paths; non-trivial = all main queries/paths")
