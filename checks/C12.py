"""C12 - parse results do not depend on earlier parse calls."""
from engine.driver import Cond, Run, source_fingerprint
from checks.parsefam import *


def run(tier):
    run = Run("C12", tier)
    run.confirm_known()
    conds = []
    to = 900 if tier == "quick" else 3600
    # (spec, ops, target word indices, split the first op over parallel conditions?); the target lists contain a word that is a
    # strict prefix of a sentence (prefix: 2 = "xy", rec: 2 = "a=", list: 3 = "a,") so that the prefix-mode observations are non-empty
    if tier == "quick":
        plan = [("amb", 2, [0], True), ("prefix", 1, [0, 2], False), ("open", 1, [0], False), ("rec", 1, [2], False)]  # amb target 1 runs in the thorough tier only (900 s budget, vp check feedback)
    else:
        plan = [("amb", 3, [0], True), ("amb", 2, [1], True), ("prefix", 2, [0, 2, 3], True), ("open", 2, [0, 1], True), ("rec", 2, [0, 2], True), ("list", 2, [0, 3], True)]
    for spec, nops, targets, split in plan:
        for ti, target in enumerate(targets):
            for op0 in (range(9) if split else [-1]):
                conds.append(Cond("h_parse_hist.py", "history_independent", to, twin="reach" if (ti == 0 and op0 in (-1, 0) and spec in ("amb", "prefix")) else None,
                                  path_timeout=to / 2, env={"H_SPEC": spec, "H_OPS": str(nops), "H_TARGET": str(target), "H_OP0": str(op0)}))
    # API level: what Fandango.parse() filters by must not depend on earlier fuzz()/init_population() calls with extra constraints
    conds.append(Cond("h_api.py", "calls_are_independent", to, twin="reach", env={"H_CALLS": "2" if tier == "quick" else "3"}))
    run.run_conditions(conds, conformance_harnesses=["h_parse_hist.py", "h_api.py"])
    run.encoded = ["Parser.parse_forest/parse_multiple/parse/_parse_forest/collapse"] + PARSER_FUNCS
    run.extra["source_sha256_16"] = source_fingerprint(PARSER_FILES)
    run.bounds = {"history": "symbolic sequence of request codes 0..8 (first tree, full forest, abandoned iteration, prefix mode, other start "
                  "symbol, mutation of returned trees at root / at leaves), words from a finite per-spec list, length <= bound",
                  "max_ops": {"amb": 2, "prefix": 1, "open": 1, "list": 1, "rec": 1} if tier == "quick" else {"amb": 3, "prefix": 2, "open": 2, "rec": 2, "list": 2}}
    run.outside = ["Grammar.generate's internal parse and Fandango.parse's constraint filter (exercised by C16/C07 harnesses)",
                   "interleaving two live generators of the same Parser", "hookin_parent requests"]
    run.assumptions = TRUST
    return run.finish(
        "Bounded symbolic execution of the real Parser (cache included) under a symbolic request history; afterwards the forest "
        "for a target word must equal a fresh Parser's forest (tree reprs in order, origin_repetitions up to renaming).",
        "one evaluation = one explored execution path (a request history); non-trivial = paths of main conditions")
