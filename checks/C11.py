"""C11 - cached evaluations equal fresh evaluations."""
from engine.driver import Cond, Run, source_fingerprint
from checks.C07 import FILES, ENCODED

PROGS_Q = [2, 21, 33, 37]  # sized for the 900 s budget of the per-change run (vp check feedback: 8 programs were too slow); the rest run in the thorough tier
PROGS_T = list(range(38))


def run(tier):
    run = Run("C11", tier)
    run.confirm_known()
    q = tier == "quick"
    to = 900 if q else 3600
    conds = []
    for p in (PROGS_Q if q else PROGS_T):
        for again in ("0", "1"):
            conds.append(Cond("h_constraints.py", "cached_equals_fresh", to, path_timeout=to / 2,
                              env=dict({"H_PROG": str(p), "H_R2": "0", "H_AGAIN": again}, **({"H_R1MIN": "3"} if q else {"H_R1MIN": "2"}))))
    conds.append(Cond("h_constraints.py", None, 600, twin="reach", env={"H_PROG": "21", "H_R2": "2"}))
    # look-alike trees: two derivations of the same string on an ambiguous grammar, evaluated one after the other by one Evaluator
    conds.append(Cond("h_ambcache.py", "second_equals_fresh", 900 if tier == "quick" else 2400, twin="reach"))
    # the same tree evaluated again by further Evaluators that share the constraint objects (what successive fuzz() calls do)
    conds.append(Cond("h_tworeps.py", "repeat_equals_fresh", 600))
    run.run_conditions(conds, conformance_harnesses=["h_constraints.py", "h_ambcache.py", "h_tworeps.py"])
    run.encoded = ENCODED + ["Constraint.cache (per-constraint memo)", "Evaluator._fitness_cache/_solution_set", "DerivationTree.invalidate_hash/set_children"]
    run.extra["source_sha256_16"] = source_fingerprint(FILES + ["fandango/language/tree.py"])
    run.bounds = {"history": "evaluate tree A; then tree B = A with one leaf replaced (symbolic position and character), either as a new "
                  "tree or by editing the already evaluated object in place; same long-lived constraint + Evaluator objects",
                  "programs": PROGS_Q if q else "all 29", "trees": "1 record with 2 values (quick) / 1 record with 1-2 values (thorough), leaf alphabet {0,5,a}"}
    run.outside = ["longer histories", "crossover/repair-produced trees (covered structurally by C10)", "specs with soft constraints (excluded by the property)"]
    run.assumptions = ["'fresh' = separate constraint objects read from the same text, caches emptied before use (the spec reader cannot run inside the engine)",
                       "finite leaf alphabet; CrossHair + plug-in conformance gate; z3 5.1"]
    return run.finish(
        "Bounded symbolic execution of a two-evaluation history on one long-lived constraint/evaluator pair; fitness, verdict, solved/total and "
        "failing trees reported for the second tree must equal those of separate objects with empty caches.",
        "one evaluation = one explored execution path (tree x edit); non-trivial = paths of main conditions")
