"""E2 model of Evaluator.evaluate_individual / _evaluate_constraints / ConstraintFitness.fitness
(and IoEvaluator.evaluate_individual), generated from the CURRENT source under /repo/src by
engine.pysym on every run."""
import json
import os
import subprocess
import sys
import time

import z3

ROOT = os.path.dirname(os.path.dirname(os.path.abspath(__file__)))
sys.path.insert(0, ROOT)
from engine import hshim  # noqa: F401  (puts /repo/src first)
from engine.pysym import (Interp, State, Opaque, SymList, Container, SInt, SFloat, SBool, RAISED, W, fp,
                          Untranslatable, F64, RNE)

from fandango.evolution.evaluation import Evaluator, IoEvaluator
from fandango.constraints.fitness import ConstraintFitness


def _nop(interp, st, args):
    return None


class Model:
    """h, r: python ints -> constraints unrolled with per-constraint symbols (solved_i, total_i,
    raised_i).  symbolic_counts=True -> h, r are 16-bit symbols <= N and the per-class fitness is
    the summary '1.0' (valid under the all-satisfied assumption by `class lemma`, proved on the real
    _evaluate_constraints).  entry: 'evaluate_individual' | 'io' | 'class' (just _evaluate_constraints)."""

    def __init__(self, h=0, r=0, T=1000, all_satisfied=False, symbolic_counts=False, first_seen=True, N=1000,
                 entry="evaluate_individual", unit_fitness=False, abstract_fitness=False):
        self.solver_s = 0.0
        self.queries = 0
        self.facts = []
        self.per = []
        self.symbolic_counts = symbolic_counts
        self.unit_fitness = unit_fitness
        self.abstract_fitness = abstract_fitness
        self.fvars = []
        methods = {
            "evaluate_individual": Evaluator.evaluate_individual,
            "evaluate_hard_constraints": Evaluator.evaluate_hard_constraints,
            "evaluate_repetition_bounds_constraints": Evaluator.evaluate_repetition_bounds_constraints,
            "ConstraintFitness.fitness": ConstraintFitness.fitness,
        }
        if not symbolic_counts:
            methods["_evaluate_constraints"] = Evaluator._evaluate_constraints
        if entry == "io":
            methods["io_evaluate_individual"] = IoEvaluator.evaluate_individual
        stubs = {
            "len": lambda i, st, a: a[0].length if isinstance(a[0], SymList) else len(a[0]),
            "hash": lambda i, st, a: Opaque("key"),
            "print_exception": _nop,
            "NopSuggestion": lambda i, st, a: Opaque("suggestion"),
            "ApplyAllSuggestions": lambda i, st, a: Opaque("suggestion"),
            ".extend": _nop, ".append": _nop, ".add": _nop,
            ".rec_set_allow_repetition_full_delete": _nop,
            ".get_root": lambda i, st, a: Opaque("root"),
            ".error": _nop,
            ".format_as_spec": lambda i, st, a: "<spec>",
            ".protocol_msgs": lambda i, st, a: [],  # a tree without protocol messages
            ".collect": _nop,
        }
        self.interp = Interp(methods, stubs)
        self.interp.globals["LOGGER"] = Opaque("LOGGER")
        if symbolic_counts:
            self.h = z3.BitVec("h", W)
            self.r = z3.BitVec("r", W)
            self.facts += [self.h >= 0, self.r >= 0, self.h <= N, self.r <= N, self.h + self.r >= 1]
            hard, rep = SymList(SInt(self.h)), SymList(SInt(self.r))
        else:
            self.h, self.r = h, r
            hard = SymList(h, [self._mk("h", i, T, all_satisfied) for i in range(h)])
            rep = SymList(r, [self._mk("r", i, T, all_satisfied) for i in range(r)])
        self.first_seen = z3.Bool("first_seen")
        if first_seen:
            self.facts.append(self.first_seen)
        ms = {
            "evaluate_hard_constraints": "evaluate_hard_constraints",
            "evaluate_repetition_bounds_constraints": "evaluate_repetition_bounds_constraints",
            "evaluate_individual": "evaluate_individual",
        }
        if symbolic_counts:
            ms["_evaluate_constraints"] = lambda interp, st, obj, args: (1.0, [], Opaque("suggestion"))
        else:
            ms["_evaluate_constraints"] = "_evaluate_constraints"
        self.self_obj = Opaque("self", attrs={
            "_hard_constraints": hard,
            "_repetition_bounds_constraints": rep,
            "_soft_constraints": SymList(0, []),
            "_expected_fitness": 1.0,
            "_fitness_cache": Container("fitness_cache", False),
            "_solution_set": Container("solution_set", SBool(z3.Not(self.first_seen))),
            "_submitted_solutions": Container("submitted", False),
            "_hold_back_solutions": Container("hold_back", False),
            "_checks_made": 0,
        }, methods=ms)
        self.interp.assume = list(self.facts)
        ind = Opaque("individual")
        t0 = time.time()
        if entry == "quotient":
            # ConstraintFitness.fitness on its own: solved, total symbolic
            s_ = z3.BitVec("q_solved", W)
            t_ = z3.BitVec("q_total", W)
            self.q = (s_, t_)
            self.facts += [s_ >= 0, s_ <= t_, t_ >= 1, t_ <= T]
            self.interp.assume = list(self.facts)
            fit = Opaque("fit", attrs={"solved": SInt(s_), "total": SInt(t_)})
            self.paths = [(st, (v,)) for st, v in self.interp.run_function("ConstraintFitness.fitness", [fit], State({}))]
        elif entry == "class":
            self.paths = self.interp.run_function("_evaluate_constraints", [self.self_obj, ind, hard], State({}))
        elif entry == "io":
            me = self

            def super_stub(interp, st, args):
                # super().evaluate_individual(individual): the inner generator is collected and its
                # yields are DISCARDED by IoEvaluator (it re-yields itself)
                def evaluate_individual(interp2, st2, obj, a):
                    before = list(st2.yields)
                    res = interp2.run_function("evaluate_individual", [me.self_obj] + a, st2)
                    for s3, _ in res:
                        s3.yields = list(before)
                    return res
                return Opaque("super", methods={"evaluate_individual": evaluate_individual})

            stubs["super"] = super_stub
            stubs["GeneratorWithReturn"] = lambda i, st, a: Opaque("gen", attrs={"return_value": a[0]})
            self.paths = self.interp.run_function("io_evaluate_individual", [self.self_obj, ind], State({}))
        else:
            self.paths = self.interp.run_function("evaluate_individual", [self.self_obj, ind], State({}))
        self.translate_s = time.time() - t0

    def _mk(self, kind, i, T, all_satisfied):
        s_ = z3.BitVec(f"{kind}_solved{i}", W)
        t_ = z3.BitVec(f"{kind}_total{i}", W)
        raised = z3.Bool(f"{kind}_raised{i}")
        self.facts += [s_ >= 0, s_ <= t_, t_ >= 1, t_ <= T]
        if all_satisfied:
            self.facts += [s_ == t_, z3.Not(raised)]
        self.per.append((kind, i, s_, t_, raised))
        if self.abstract_fitness:
            # lemma cut: the per-constraint fitness is an FP variable that is either exactly 1.0
            # (satisfied) or at most 1 - 2^-10 (violated; justified by the quotient lemma for totals <= 1000)
            f = z3.FP(f"{kind}_f{i}", F64)
            one = z3.FPVal(1.0, F64)
            self.facts += [z3.Or(z3.fpEQ(f, one), z3.And(z3.fpGEQ(f, z3.FPVal(0.0, F64)), z3.fpLEQ(f, z3.FPVal(1.0 - 2.0 ** -10, F64)))),
                           z3.fpEQ(f, one) == (s_ == t_)]
            self.fvars.append(f)
        fit = Opaque(f"fit_{kind}{i}", attrs={"solved": SInt(s_), "total": SInt(t_), "failing_trees": [],
                                           "suggestion": Opaque("suggestion")},
                     methods={"fitness": (lambda interp, st, obj, args: 1.0) if self.unit_fitness
                              else (lambda interp, st, obj, args, f=(self.fvars[-1] if self.abstract_fitness else None): SFloat(f)) if self.abstract_fitness
                              else "ConstraintFitness.fitness"})

        def fitness(interp, st, obj, args):
            out = []
            if interp.feasible(st, z3.Not(raised)):
                ok = st.fork()
                ok.pc.append(z3.Not(raised))
                out.append((ok, fit))
            if interp.feasible(st, raised):
                bad = st.fork()
                bad.pc.append(raised)
                out.append((bad, RAISED))
            return out

        return Opaque(f"c_{kind}{i}", methods={"fitness": fitness})

    # ------------------------------------------------------------------------------------------
    def check(self, extra, timeout_s=900):
        s = z3.Solver()
        s.set("timeout", int(timeout_s * 1000))
        s.add(*self.facts)
        s.add(*extra)
        t0 = time.time()
        r = s.check()
        self.solver_s += time.time() - t0
        self.queries += 1
        return str(r), (s.model() if str(r) == "sat" else None)

    @staticmethod
    def _pc(st):
        return z3.And(*st.pc) if st.pc else z3.BoolVal(True)

    def emitted(self):
        alts = [self._pc(st) for st, v in self.paths if st.yields]
        return z3.Or(*alts) if alts else z3.BoolVal(False)

    def not_emitted(self):
        alts = [self._pc(st) for st, v in self.paths if not st.yields]
        return z3.Or(*alts) if alts else z3.BoolVal(False)

    def fitness_is(self, var):
        """constraint: var == returned fitness on the taken path"""
        alts = []
        for st, v in self.paths:
            if v is RAISED or v is None:
                continue
            alts.append(z3.And(self._pc(st), var == fp(v[0])))
        return z3.Or(*alts)

    def all_ok(self):
        return z3.And(*[z3.And(s_ == t_, z3.Not(raised)) for _, _, s_, t_, raised in self.per]) if self.per else z3.BoolVal(True)

    def pin(self, case):
        """constraints fixing the per-constraint symbols to a concrete case {"h": [[s,t,raises]..], "r": [...]}"""
        out = []
        vals = {"h": case["h"], "r": case["r"]}
        for kind, i, s_, t_, raised in self.per:
            s, t, rz = vals[kind][i]
            out += [s_ == s, t_ == t, raised == bool(rz)]
        return out


def native_eval(cases, io=False, expect_all_yield=False):
    """run the REAL Evaluator (stub constraint objects) natively on concrete cases"""
    from engine import driver

    req = json.dumps({"cases": cases, "io": io})
    p = subprocess.run([driver.PY, os.path.join(ROOT, "harness", "r_eval.py"), req], capture_output=True, text=True,
                       cwd=ROOT, env=driver._env({"VERIF_NATIVE": "1", "PYTHONPATH": ROOT}), timeout=600)
    for line in p.stdout.splitlines():
        if line.startswith("EVAL="):
            return json.loads(line[5:])
    raise RuntimeError("native evaluator failed: " + p.stderr[-800:])
