"""C04 - parsing is sound (see DESIGN.md section 3, C04)."""
from engine.driver import Cond, Run, source_fingerprint

FILES = [
    "fandango/language/grammar/parser/iterative_parser.py",
    "fandango/language/grammar/parser/column.py",
    "fandango/language/grammar/parser/parse_state.py",
    "fandango/language/symbols/terminal.py",
    "fandango/language/tree.py",
    "fandango/language/tree_value.py",
]

# (spec, quick len, thorough len, timeout quick, timeout thorough)
STR_SPECS = [
    ("prefix", 3, 5), ("list", 3, 4), ("nested", 3, 4), ("amb", 2, 4), ("rec", 3, 5), ("uni", 3, 4), ("open", 3, 5), ("zeromin", 3, 4),
]


def run(tier):
    run = Run("C04", tier)
    run.confirm_known()
    conds = []
    for spec, q, t in STR_SPECS:
        n = q if tier == "quick" else t
        to = 240 if tier == "quick" else 1500
        env = {"H_SPEC": spec, "H_LEN": str(n)}
        from checks.parsefam import REACH
        if spec in REACH:
            env["H_REACH"] = str(min(n, int(REACH[spec])))  # the spec has no longer words
        conds.append(Cond("h_parse_str.py", "sound", to, twin="reach", path_timeout=to / 2, env=env))
    conds.append(Cond("h_parse_str.py", "sound", 240 if tier == "quick" else 1500, twin="reach",
                      env={"H_SPEC": "uni", "H_LEN": "2" if tier == "quick" else "3", "H_START": "<alt>"}))
    for spec, n in (("prefix", 3), ("amb", 2), ("open", 3), ("uni", 2)):  # thorough: len 3 (len 4 over the 4 UTF-8 classes did not finish in 2400 s)
        conds.append(Cond("h_parse_api.py", "api_sound", 600 if tier == "quick" else 2400, twin="reach_api" if spec == "prefix" else None,
                          env={"H_SPEC": spec, "H_LEN": str(n if tier == "quick" else n + 1)}))
    from checks.parsefam import RX_SPECS
    for spec, alpha, ql, tl in RX_SPECS:
        conds.append(Cond("h_parse_str.py", "sound_fa", 600 if tier == "quick" else 2400, twin="reach_fa" if spec == "rx2" else None,
                          env={"H_SPEC": spec, "H_LEN": str(ql if tier == "quick" else tl), "H_ALPHA": alpha}))
    conds.append(Cond("h_parse_api.py", "api_repetition", 900 if tier == "quick" else 2400, twin="reach_rep", env={"H_RLEN": "4" if tier == "quick" else "5"}))
    conds.append(Cond("h_parse_api.py", "bytes_sound", 600 if tier == "quick" else 2400, twin="reach_bytes", env={"H_BLEN": "2" if tier == "quick" else "3"}))
    run.run_conditions(conds, conformance_harnesses=["h_parse_str.py", "h_parse_api.py"])
    run.encoded = ["IterativeParser.new_parse/consume/_consume/predict/scan_bytes/complete/place_repetition_shortcut/"
                   "to_derivation_tree/collapse", "Column.add/update/find_dot/replace", "ParseState.*", "Terminal.check",
                   "DerivationTree.__init__/set_children/to_string", "TreeValue.append/to_string"]
    run.extra["source_sha256_16"] = source_fingerprint(FILES)
    run.bounds = {"word": "str over all code points", "max_len": {s: (q if tier == "quick" else t) for s, q, t in STR_SPECS},
                  "grammars": [s for s, _, _ in STR_SPECS]}
    run.bounds["api level"] = "Grammar.parse_forest after one prior request (none / prefix-mode parse / first-tree request / other word / both modes) on words over the spec's letters"
    run.bounds["regex terminals"] = "5 grammars with regex terminals (one matching the empty string, one optional digit, one under a star) on ALL words over a 2-4 letter alphabet up to length 3-4 (finite alphabet: the regex engines realise the word)"
    run.bounds["api constraint filter"] = "Fandango.parse on a spec with a computed repetition whose count symbol can be read two ways: ALL words over {1,2,x,;} up to length 4 (5): every yielded tree has exactly int(<n>) items"
    run.bounds["bytes input"] = "bytes words of length <= 2 (3) over {e9,78,c3,a9,00,79} against a grammar mixing non-ASCII str literals and bytes literals"
    run.outside = ["regex terminals on words outside the stated finite alphabets", "words longer than the bound",
                   "grammars outside the fixed family", "the constraint filter of Fandango.parse (see C07/C02 checks)"]
    run.assumptions = ["CrossHair 0.0.110 + plug-in (engine/plugin.py) is faithful to CPython on this code: checked by the conformance gate",
                       "z3 5.1 verdicts", "reference checker harness/common.py valid()/text_of()"]
    return run.finish(
        "Bounded symbolic execution (CrossHair + z3) of the real Earley parser on a symbolic word; every path inside the "
        "length bound is discharged ('Confirmed over all paths'); each yielded tree is checked by an independent derivation "
        "checker, its in-order leaf text and to_string() must equal the word, no helper symbols may remain.",
        "one evaluation = one explored execution path (a class of words that drive the parser identically); "
        "non-trivial = paths of main conditions (twins excluded)")
