"""C08 (in part) - Python embedded in a spec keeps its Python meaning: per program of a stated corpus, for all data in the bound."""
import json
import os
import subprocess

from engine.driver import Cond, Run, source_fingerprint, PY, ROOT, _env

FILES = ["fandango/language/parse/convert.py", "fandango/language/parse/spec.py", "fandango/language/parse/parse.py",
         "fandango/constraints/constraint.py", "fandango/constraints/expression.py", "fandango/constraints/comparison.py"]


def corpus_sizes():
    p = subprocess.run([PY, "-c", "from harness import pycorpus as P; import json; print(json.dumps([len(P.EXPRS), len(P.FORMULAS), len(P.STMTS)]))"],
                       capture_output=True, text=True, cwd=ROOT)
    return json.loads(p.stdout.strip().splitlines()[-1])


def rejected(kind):
    """programs the real reader rejects with an error (allowed by the property; reported)"""
    code = ("import os, json; os.environ['H_KIND']=%r\nfrom harness import h_pyembed as H\nprint('REJ=' + json.dumps({str(k): v for k, v in H.REJECTED.items()}))" % kind)
    p = subprocess.run([PY, "-c", code], capture_output=True, text=True, cwd=ROOT, env=_env({"VERIF_NATIVE": "1", "PYTHONPATH": ROOT}), timeout=900)
    for line in reversed(p.stdout.splitlines()):
        if line.startswith("REJ="):
            return json.loads(line[4:])
    return None


def run(tier):
    run = Run("C08", tier)
    run.confirm_known()
    q = tier == "quick"
    ne, nf, ns = corpus_sizes()
    to = 900 if q else 3600
    rng = {"H_LO": "-2", "H_HI": "2", "H_SLEN": "1", "H_XMAX": "1"} if q else {"H_LO": "-3", "H_HI": "3", "H_SLEN": "2", "H_XMAX": "2"}
    conds = []
    # batches of consecutive programs, sized by cost: a program with a symbol reference runs the full Constraint.check() path on
    # every tree (x: 20 values, y: 4) and costs about as much as 5 others
    from harness import pycorpus as PC
    lo, cost = 0, 0
    for i, text in enumerate(PC.EXPRS + ["<sentinel>"]):
        c = (2 if q else 5) if ("<x>" in text or "<y>" in text) else 1
        if i == ne or (cost + c > 10 and i > lo):
            conds.append(Cond("h_pyembed.py", "equiv", to, twin="reach" if lo == 0 else None, path_timeout=to / 2,
                              env=dict(rng, H_KIND="expr", H_FROM=str(lo), H_TO=str(i))))
            lo, cost = i, 0
        cost += c
    for lo in range(0, nf, 12):
        conds.append(Cond("h_pyembed.py", "equiv", to, twin="reach" if lo == 0 else None, path_timeout=to / 2,
                          env=dict(rng, H_KIND="formula", H_FROM=str(lo), H_TO=str(min(nf, lo + 12)))))
    rej_s = rejected("stmt")
    if rej_s is None:
        run.errors.append("could not translate the statement corpus")
        rej_s = {}
    for i in range(ns):
        if str(i) in rej_s:
            continue
        conds.append(Cond("h_pyembed.py", "equiv", to, twin="reach" if i == 4 else None, path_timeout=to / 2,
                          env=dict(rng, H_KIND="stmt", H_FROM=str(i), H_TO=str(i + 1))))
    rej_e = rejected("expr") or {}
    rej_f = rejected("formula") or {}
    run.run_conditions(conds, conformance_harnesses=[("h_pyembed.py", {"H_KIND": "expr"}),
                                                     ("h_pyembed.py", {"H_KIND": "stmt", "H_FROM": "0", "H_TO": str(ns)}),
                                                     ("h_pyembed.py", {"H_KIND": "formula"})])
    run.encoded = ["the code objects Fandango runs for each program: ExpressionConstraint/ComparisonConstraint/Conjunction/Disjunction built by "
                   "ConstraintProcessor+SearchProcessor (expression string, searches, spec globals), evaluated through Constraint.check -> combinations -> "
                   "Constraint.eval", "functions defined by FandangoSpec.run_code(code_text) (PythonProcessor output, ast.unparse, exec)",
                   "reference: CPython compile() of the same text"]
    run.extra["source_sha256_16"] = source_fingerprint(FILES)
    run.extra["programs"] = ne + nf + ns
    run.extra["corpus"] = {"expressions": ne, "formulas": nf, "statement programs": ns}
    run.extra["rejected_by_reader"] = {"expr": rej_e, "formula": rej_f, "stmt": rej_s}
    run.bounds = {"programs": f"{ne} expressions (all {11 * 11} ordered pairs of binary operators; unary/comparison/boolean/conditional operators; lambdas with every "
                              f"parameter kind; comprehensions; subscripts and slices; calls with */** arguments; literals; f-strings; symbol references inside nested "
                              f"scopes), {nf} unwrapped boolean formulas (and/or/not/comparison at the constraint level), {ns} helper-code programs (parameter kinds, "
                              "defaults, closures, control flow, exceptions, with, classes, augmented assignment, unpacking, imports, generators, decorators, ...); "
                              "ENUMERATED, not solver variables",
                  "data": f"A_, B_, a, b in [{rng['H_LO']}, {rng['H_HI']}] (symbolic ints); S_/s: str over {{a,b}} of length <= {rng['H_SLEN']}; <x>: 1..{rng['H_XMAX']} leaves, <y>: 1 leaf over {{0,2,7,a}}"}
    run.outside = ["the space of PROGRAMS (the reader cannot run on symbolic text): only the listed corpus is decided, each program for all data in the bound",
                   "AST equality with CPython's parser (a stronger, non-solver statement); programs the reader rejects with an error are reported, not compared",
                   "generator expressions (`:=`) and repetition-bound expressions go through the same SearchProcessor but other eval sites; not executed here",
                   "the C++ front end vs the Python one (C14)", "f-string fields with BOTH a conversion and a format spec (f'{v!r:>6}'): CrossHair 0.0.110 raises on them where CPython formats - found by the conformance gate, programs removed from the corpus", "data outside the stated ranges"]
    run.assumptions = ["reference = CPython's compile() of the same text with <x>/<y> replaced by fresh variables bound to the same tree nodes",
                       "the harness-owned rec_() records the value computed inside Constraint.check; A_, B_, S_, L_ are placed in the spec's global environment",
                       "data a program does not mention is pinned (assumption placed before the code)", "CrossHair + plug-in conformance gate; z3 5.1"]
    return run.finish(
        "Per program of the corpus (translated once by the real spec reader), bounded symbolic execution of what Fandango runs and of CPython's own "
        "compilation of the same text on the same symbolic data: same value (type-exact) or same exception class on every path; a raising constraint "
        "expression fails the constraint.",
        "one evaluation = one explored execution path (program x data class); non-trivial = paths of main conditions")
