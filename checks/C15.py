"""C15 (in part) - printing a grammar and reading it back preserves its language (E3), literal quoting (E1)."""
import itertools
import json
import os
import random
import subprocess

from engine.driver import Cond, Run, ROOT, PY, _env, source_fingerprint
from engine import hshim  # noqa: F401
from engine.gre import to_re, Queries, NotRegular

# shapes mixing a literal and a regex terminal with the SAME text (the printed form must keep the kind)
KIND_SHAPES = ['<y> "." <y> | "*" r"." "*"', 'r"a+" "b" | "a+" "c"', '"[ab]" r"[ab]" "!"', 'rb"a?" b"a?" "."', 'r"x{2}" "x{2}" | "q"',
               '"*" r"." "*" | <y> "." <y>', '"a+" "c" | r"a+" "b"']
OPERANDS = ['"a"', '<x>', '("a" | "b")', '("a" "b")', 'b"\\xff"', '"\\xe9"', '(<x> "a" | "b")']
OPS = ['*', '+', '?', '{2}', '{1,2}', '{2,}', '{,2}']
CONTEXTS = ['{e}', '{e} "c"', '"c" {e}', '{e} | "c" "d"', '({e})?  "c"']
TAIL = '<x> ::= "x" | "y" "z"\n'


def shapes(tier, rnd):
    out = []
    for operand in OPERANDS:
        for op in OPS:
            out.append(f"{operand}{op}")
    d2 = []
    for operand in OPERANDS:
        for op1 in OPS:
            for op2 in OPS:
                d2.append(f"({operand}{op1}){op2}")
                d2.append(f"({operand}{op1} {operand}){op2}")
    if tier == "quick":
        rnd.shuffle(d2)
        d2 = d2[:120]
    out += d2
    if tier != "quick":
        d3 = [f"(({a}{o1}){o2} | {b}{o3}){o4}" for a in OPERANDS[:4] for b in OPERANDS[:4] for o1 in OPS for o2 in OPS[:3] for o3 in OPS[:3] for o4 in OPS]
        rnd.shuffle(d3)
        out += d3[:600]
    specs = []
    for i, e in enumerate(out):
        ctx = CONTEXTS[i % len(CONTEXTS)]
        specs.append(f"<start> ::= {ctx.format(e=e)}\n" + TAIL)
    for e in KIND_SHAPES:
        specs.append(f"<start> ::= {e}\n<y> ::= \"0\" | \"1\"\n" + TAIL)
    return specs


def _member_latin1(hcommon, g, w):
    """reference membership with bytes literals read as Latin-1 text (the encoding E3 uses for bytes literals)"""
    orig = hcommon._lit

    def lit(node):
        v = orig(node)
        return v.decode("latin-1") if isinstance(v, bytes) else v

    hcommon._lit = lit
    try:
        return hcommon.member(g, w)
    finally:
        hcommon._lit = orig


def run(tier):
    from fandango.language.parse.parse import parse
    import fandango.language.grammar.nodes as nodes_mod

    run = Run("C15", tier)
    run.confirm_known()
    import importlib
    os.environ.setdefault("VERIF_NATIVE", "1")
    hcommon = importlib.import_module("harness.common")
    rnd = random.Random(run.seed)
    q = Queries()
    specs = shapes(tier, rnd)
    decided = 0
    validated = 0
    for i, spec in enumerate(specs):
        try:
            g1, _ = parse(spec, use_stdlib=False, use_cache=False)
        except Exception as e:
            run.errors.append(f"family spec rejected by the reader: {spec!r}: {e!r}"[:300])
            continue
        printed = repr(g1) + "\n"
        word = None
        try:
            g2, _ = parse(printed, use_stdlib=False, use_cache=False)
        except Exception as e:
            g2 = None
        try:
            r1 = to_re(g1)
            if g2 is None:
                # printed text unreadable: any word of the original language witnesses the loss
                ws = q.sample(r1, 1)
                res, word = "sat", (ws[0] if ws else "")
            else:
                res, word = q.distinguishing_word(r1, to_re(g2))
        except NotRegular as e:
            run.errors.append(f"not translatable: {spec!r}: {e}")
            continue
        if res == "unsat":
            decided += 1
        elif res == "sat":
            arg = json.dumps({"spec": spec, "word": word})
            p = subprocess.run([PY, os.path.join(ROOT, "harness", "r_print.py"), arg], capture_output=True, text=True, cwd=ROOT,
                               env=_env({"VERIF_NATIVE": "1", "PYTHONPATH": ROOT}), timeout=300)
            if p.returncode == 1:
                d = os.path.join(__import__("engine.driver").driver.OUT, "replays", "C15")
                os.makedirs(d, exist_ok=True)
                path = os.path.join(d, f"shape_{abs(hash(spec)) % 10**10}.json")
                json.dump({"kind": "script", "script": "harness/r_print.py", "args": {"spec": spec, "word": word},
                           "observed": p.stdout[-600:], "printed": printed}, open(path, "w"), indent=1)
                run.violations.append(path)
                print(f"VIOLATION property=C15 replay={path}", flush=True)
                if len(run.violations) >= 5:
                    break
            else:
                run.errors.append(f"solver's distinguishing word {word!r} does not reproduce for {spec!r}: {p.stdout[-200:]} {p.stderr[-200:]}")
        else:
            run.errors.append(f"solver answered {res} for {spec!r}")
        # translator validation on a subset: generated words are in R, sampled words parse
        if i % 8 == 0:
            random.seed(run.seed + i)
            for _ in range(3):
                w = g1.fuzz("<start>", 20).to_string()
                if not q.member(r1, w):
                    run.errors.append(f"translator validation: generated word {w!r} not in the regex of {spec!r}")
            for w in q.sample(r1, 2):
                # against the independent reference recogniser (not the parser under test: a word the parser wrongly
                # rejects is C05's business - that is how known finding C05-starrep was found)
                if not _member_latin1(hcommon, g1, w):
                    run.errors.append(f"translator validation: regex word {w!r} is not in the reference language of {spec!r}")
            validated += 1
        if len(run.samples) < 6:
            run.samples.append({"spec": spec.splitlines()[0], "printed": printed.splitlines()[0], "answer": res, "word": word})
    run.extra["smt_queries"] = q.n
    run.extra["smt_queries_nontrivial"] = decided
    run.extra["solver_s"] = round(q.solver_s, 2)
    run.extra["programs"] = len(specs)
    run.extra["translator_validation_specs"] = validated
    # ---- constraints: print -> re-read -> same verdicts -------------------------------------------------
    import re as _re
    import sys as _sys
    _sys.path.insert(0, ROOT)
    os.environ.setdefault("VERIF_NATIVE", "1")
    from harness.r_cprint import probe
    import importlib
    hc = importlib.import_module("harness.h_constraints")
    # classes of listed known findings (a constraint text matched by none of them is a new violation)
    KNOWN_CLASSES = {
        "C15-len-star": lambda t: ("len(*" in t) or ("|*" in t),
        "C15-legacy-quantifier": lambda t: t.lstrip("( ").startswith(("forall ", "exists ")),
        "C15-not-paren": lambda t: t.startswith("not ("),
    }
    active = {k["id"] for k in __import__("engine.driver").driver.load_known("C15")}
    readable = []
    for i, (text, _ref) in enumerate(hc.PROGRAMS):
        r = probe(text)
        if r["problem"] is None:
            readable.append(i)
            continue
        cls = [k for k, pred in KNOWN_CLASSES.items() if pred(text) and k in active]
        if cls:
            run.extra.setdefault("known_finding_instances", []).append({"class": cls[0], "text": text, "printed": r["printed"]})
            continue
        d = os.path.join(__import__("engine.driver").driver.OUT, "replays", "C15")
        os.makedirs(d, exist_ok=True)
        path = os.path.join(d, f"constraint_{i}.json")
        json.dump({"kind": "script", "script": "harness/r_cprint.py", "args": {"text": text}, "observed": r}, open(path, "w"), indent=1)
        run.violations.append(path)
        print(f"VIOLATION property=C15 replay={path}", flush=True)
    run.extra["constraint_programs_probed"] = len(hc.PROGRAMS)
    cconds = []
    for i in (readable if tier != "quick" else [p for p in readable if p in (0, 6, 7, 10, 11, 17, 18, 23, 26, 34, 35, 36)]):
        cconds.append(Cond("h_constraints.py", "print_roundtrip", 900 if tier == "quick" else 3000, env={"H_PROG": str(i), "H_R2": "2" if tier == "quick" else "3"}))
    # literal quoting (E1)
    to = 600 if tier == "quick" else 2400
    run.run_conditions(cconds + [
        Cond("h_quote.py", "str_roundtrip", to, twin="reach", env={"H_LEN": "2" if tier == "quick" else "3"}),
        Cond("h_quote.py", "bytes_roundtrip", to, env={"H_LEN": "2" if tier == "quick" else "3"}),
    ], conformance_harnesses=["h_quote.py"])
    run.encoded = ["Grammar.__repr__", "Alternative/Concatenation/Repetition/Star/Plus/Option/NonTerminalNode/TerminalNode.format_as_spec",
                   "Terminal.format_as_spec/from_symbol/clean", "TreeValue.__repr__", "the spec reader (concrete shapes)"]
    run.extra["source_sha256_16"] = source_fingerprint(["fandango/language/grammar/nodes/repetition.py", "fandango/language/grammar/nodes/alternative.py",
                                                        "fandango/language/grammar/nodes/concatenation.py", "fandango/language/symbols/terminal.py",
                                                        "fandango/language/grammar/grammar.py", "fandango/language/tree_value.py"])
    run.bounds = {"grammar shapes": f"{len(specs)} generated shapes: operators * + ? {{2}} {{1,2}} {{2,}} {{,2}} over terminal / nonterminal / grouped alternative / grouped "
                  "sequence / bytes / non-ASCII literal, nested to depth 2 (thorough: 3), in 5 contexts", "words": "ALL words (regular-language equality, no length bound)",
                  "literal quoting": "symbolic str / bytes of length <= 2 (3) over a 12-character alphabet incl. both quotes, backslash, newline, NUL, e-acute, euro"}
    run.bounds["constraints"] = "the 38 constraint programs of the C07 family: printed with format_as_spec(), read back (concrete probe), and for those that read back the original and the re-read constraint agree on EVERY tree of the C07 bound (E1)"
    run.bounds["regex vs literal"] = "7 shapes in which a literal and a regex terminal have the same text (regex subset translated to z3: literals, ., classes, ?, *, +, {m,n}, groups, |)"
    run.outside = ["constraint PROGRAMS are a fixed list", "generators", "party annotations", "regex constructs outside the translated subset", "recursive grammars (no regular encoding)", "bit terminals",
                   "{n,} is printed with the current cap ({n,20}): same language only while MAX_REPETITIONS is unchanged"]
    run.assumptions = ["E3 translation (engine/gre.py), validated per run against Grammar.fuzz and Grammar.parse", "z3 5.1 sequence/regex theory",
                       "grammar shapes are enumerated, not solver variables"]
    return run.finish(
        "For each generated grammar shape: read with the real reader, print with repr(grammar), read back; both IRs are translated to z3 regular "
        "expressions and z3 decides whether ANY word distinguishes them (unsat = same language for all words). A distinguishing word is replayed "
        "with the real parser on both grammars. Literal quoting: CrossHair on Terminal.format_as_spec -> Terminal.from_symbol.",
        "evaluations = language-equality and validation queries + explored paths; non-trivial = shapes decided")
