"""C16 - generator-defined fields carry generator output and are not edited behind it."""
from engine.driver import Cond, Run, source_fingerprint

FILES = ["fandango/language/grammar/grammar.py", "fandango/language/grammar/nodes/non_terminal.py", "fandango/language/tree.py",
         "fandango/language/grammar/literal_generator.py"]


def run(tier):
    run = Run("C16", tier)
    run.confirm_known()
    q = tier == "quick"
    to = 900 if q else 3000
    conds = []
    for spec, nch in (("dep", 4), ("twice", 4), ("nested", 2), ("overflow", 2)):
        env = {"H_SPEC": spec, "H_CHOICES": str(nch)}
        conds.append(Cond("h_generators.py", "fields_follow_generators", to, path_timeout=to / 2, env=env))
        for which in range(2 if q else 6):
            conds.append(Cond("h_generators.py", "operators_respect_generators", to, twin="reach_ops" if which == 0 else None, path_timeout=to / 2,
                              env=dict(env, H_WHICH=str(which))))
    conds.append(Cond("h_generators.py", "stub_value_is_used", to, twin="reach_stub", path_timeout=to / 2, env={"H_SPEC": "stub", "H_CHOICES": "3"}))
    run.run_conditions(conds, conformance_harnesses=[("h_generators.py", {"H_SPEC": "dep"})])
    run.encoded = ["NonTerminalNode.fuzz (generator branch)", "Grammar.generate/generate_string/derive_sources/populate_sources/is_use_generator/"
                   "derive_generator_output/generator_dependencies", "DerivationTree.replace/replace_multiple/get_choices_path/set_all_read_only",
                   "Grammar.parse (of the generated value)"]
    run.extra["source_sha256_16"] = source_fingerprint(FILES)
    run.bounds = {"specs": "5: generator with two distinct symbol arguments, generator mentioning one symbol twice, nested generated argument, a dependent "
                           "generator whose re-run value can leave the language of its rule (must raise, not keep the old text), "
                           "stub generator returning a symbolic string (len <= 2 over {0,1,a})",
                  "draws": "every random draw of Grammar.fuzz symbolic (values 0..2)", "operator": "replace() of ANY nonterminal node (sources included) by any "
                           "same-symbol subtree of 3 other trees (first 2 candidates in quick tier, 6 in thorough)"}
    run.outside = ["random generators (random module inside generator code)", "crossover/mutation wrappers around replace() (they only choose the nodes)",
                   "specs with converters (inverse generators)", "longer operator histories"]
    run.assumptions = ["the harness re-implements each spec's generator in Python to recompute the expected text from the recorded .sources",
                       "replace() raising FandangoValueError / KeyError / FandangoParseError counts as 'refused' (input must be unchanged)", "CrossHair + plug-in conformance gate"]
    return run.finish(
        "Bounded symbolic execution of generation and subtree replacement on specs with generators: every generator-defined field equals the "
        "generator applied to the arguments recorded with the tree, its children are read-only, read-only nodes are never replaced, inputs are never "
        "modified, and a generator value that does not fit the rule raises FandangoParseError.",
        "one evaluation = one explored execution path; non-trivial = paths of main conditions")
