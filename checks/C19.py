"""C19 - protocol forecasting offers exactly the grammar's continuations."""
from engine.driver import Cond, Run, source_fingerprint

FILES = ["fandango/io/navigation/packetforecaster.py", "fandango/io/navigation/stategrammarconverter.py", "fandango/io/navigation/packetiterativeparser.py",
         "fandango/io/navigation/visitor/continuing_nodevisitor.py", "fandango/language/tree.py", "fandango/language/grammar/parser/iterative_parser.py"]


def run(tier):
    run = Run("C19", tier)
    run.confirm_known()
    q = tier == "quick"
    to = 900 if q else 3000
    conds = []
    for spec, dq, dt in (("fore", 3, 5), ("pingpong", 3, 5), ("group", 3, 5), ("nest", 3, 4), ("same", 3, 3), ("shared", 4, 6), ("sliced", 3, 4), ("sliced2", 3, 5)):
        conds.append(Cond("h_forecast.py", "forecasts_match", to, twin="reach" if spec not in ("pingpong", "sliced", "sliced2") else None, path_timeout=to / 2,
                          env={"H_SPEC": spec, "H_DEPTH": str(dq if q else dt)}))
    run.run_conditions(conds, conformance_harnesses=[("h_forecast.py", {"H_SPEC": s}) for s in ("fore", "group")])
    run.encoded = ["PacketForecaster.__init__/predict", "StateGrammarConverter.process", "PacketIterativeParser", "PathFinder.forecast/add_option",
                   "ContinuingNodeVisitor.visit*", "MountingPath", "DerivationTree.append/protocol_msgs", "IterativeParser (prefix mode on the message-level word)"]
    run.extra["source_sha256_16"] = source_fingerprint(FILES)
    run.bounds = {"protocol specs": "6: two alternatives that begin with the same factored-out non-nullable sub-rule; option + star + bounded repetition + nesting (the repository's forecaster.fan); alternation inside a star with a two-message "
                  "branch; bounded repetition of a two-message group followed by an option; nested bounded repetition of alternatives; the same message type sent by both parties",
                  "histories": "every message history reachable by choosing among the offered options, depth <= 3 (thorough 5)", "MAX_REPETITIONS": 3}
    run.bounds["sliced specs"] = "2 three-party specs, sliced to the fuzzer-controlled party by the real reader (truncate_invisible_packets -> slice_parties); reference = the unsliced IR with the removal rules applied by the harness"
    run.outside = ["slicing shapes in which one message type occurs twice in the same alternative/sequence (the truncator removes nodes by symbol equality)", "deeper histories",
                   "computed repetitions in protocol grammars", "the PacketSelector's choice among the offered options"]
    run.assumptions = ["reference = message-level regular expression built by the harness from the grammar IR (letters = (sender, recipient, symbol)); continuation and "
                       "completeness decided by z3 per history", "* and + capped by nodes.MAX_REPETITIONS as in generation", "CrossHair + plug-in conformance gate"]
    return run.finish(
        "Bounded symbolic execution of the real PacketForecaster along every message history in the depth bound (choice indices symbolic): the offered "
        "(sender, recipient, message type) set equals the continuation set of the message-level language and the history is reported complete exactly when "
        "it is a word - both decided by z3 on a regular expression derived from the grammar IR.",
        "one evaluation = one explored execution path (a history); non-trivial = paths of main conditions")
