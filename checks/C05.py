"""C05 - what the grammar generates, the parser accepts (completeness / round trip)."""
from engine.driver import Cond, Run, source_fingerprint
from checks.parsefam import *


def run(tier):
    run = Run("C05", tier)
    run.confirm_known()
    conds = []
    to = 600 if tier == "quick" else 1800
    for spec, q, t in STR_SPECS:
        n = q if tier == "quick" else t
        env = {"H_SPEC": spec, "H_LEN": str(n)}
        if spec in REACH:
            env["H_REACH"] = str(min(n, int(REACH[spec])))
        conds.append(Cond("h_parse_str.py", "complete", to, twin="reach", path_timeout=to / 2, env=env))
    # a star directly followed by its own body inside a counted repetition (known finding C05-starrep on 'aac')
    conds.append(Cond("h_parse_str.py", "complete", to, path_timeout=to / 2, env={"H_SPEC": "starrep", "H_LEN": "3" if tier == "quick" else "5"}))
    for spec, alpha, ql, tl in RX_SPECS + [("rxnull", "ab", 3, 4)]:
        conds.append(Cond("h_parse_str.py", "complete_fa", to, path_timeout=to / 2,
                          env={"H_SPEC": spec, "H_LEN": str(ql if tier == "quick" else tl), "H_ALPHA": alpha}))
    # generator direction: every tree Grammar.fuzz can produce re-parses with an identical serialisation
    for spec in ("list", "nested", "prefix", "open", "rec"):
        conds.append(Cond("h_fuzz.py", "roundtrip", to, twin="reach", path_timeout=to / 2,
                          env={"H_SPEC": spec, "H_BUDGETS": "0,2,5,12" if tier == "quick" else "0,2,5,12,30",
                               "H_CHOICES": "8" if tier == "quick" else "14", "H_RSIZE": {"open": "5", "prefix": "5"}.get(spec, "7")}))
    conds.append(Cond("h_fuzz.py", "roundtrip_bytes", to, path_timeout=to / 2, env={"H_SPEC": "rxgen", "H_BUDGETS": "5,12", "H_CHOICES": "6"}))
    conds.append(Cond("h_fuzz.py", "roundtrip_bytes", to, path_timeout=to / 2, env={"H_SPEC": "rxws", "H_BUDGETS": "12", "H_CHOICES": "4"}))
    run.run_conditions(conds, conformance_harnesses=["h_parse_str.py"] + [("h_fuzz.py", {"H_SPEC": s}) for s in ("list", "nested", "open")])
    run.encoded = PARSER_FUNCS + ["Grammar.fuzz", "Alternative/Concatenation/Repetition/NonTerminalNode/TerminalNode.fuzz"]
    run.extra["source_sha256_16"] = source_fingerprint(PARSER_FILES)
    run.bounds = {"word": "str over all code points", "max_len": {s: (q if tier == "quick" else t) for s, q, t in STR_SPECS},
                  "generator direction": "all random draws symbolic (<= 8 / 14 draws), node budgets {0,2,5,12} / +30, MAX_REPETITIONS lowered to 2"}
    run.bounds["regex terminals"] = "5 grammars with regex terminals incl. empty-matching ones (r'a*' 'b'; 'x' r'[0-9]?' 'y') on ALL words over a 2-4 letter alphabet up to length 3-4"
    run.outside = ["regex terminals on words outside the stated finite alphabets; regex terminals that can be split in more than one way (excluded by the property)", "bytes/bit-level grammars (see C04/C13 byte conditions)",
                   "words longer than the bound", "the constraint filter of --validate"]
    run.assumptions = TRUST
    return run.finish(
        "Bounded symbolic execution of the real Earley parser on a symbolic word: (parser yields >= 1 tree) == (reference "
        "recogniser accepts), both directions, all words up to the bound; plus Grammar.fuzz under symbolic random draws: the "
        "serialisation of every generated tree parses back to a tree with the same serialisation.",
        "one evaluation = one explored execution path; non-trivial = paths of main conditions")
