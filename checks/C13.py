"""C13 - incremental parsing is independent of fragmentation."""
from engine.driver import Cond, Run, source_fingerprint
from checks.parsefam import *

FRAG_SPECS = [("prefix", 3, 5), ("list", 2, 3), ("nested", 3, 4), ("rec", 3, 4), ("uni", 2, 3), ("open", 3, 4), ("nullstar", 2, 3)]


def run(tier):
    run = Run("C13", tier)
    run.confirm_known()
    conds = []
    to = 700 if tier == "quick" else 2400
    for spec, q, t in FRAG_SPECS:
        n = q if tier == "quick" else t
        env = {"H_SPEC": spec, "H_LEN": str(n)}
        if spec in REACH:
            env["H_REACH"] = str(min(n, int(REACH[spec])))  # the spec has no longer words
        conds.append(Cond("h_parse_frag.py", "same_as_whole", to, twin="reach", path_timeout=to / 2, env=env))
        conds.append(Cond("h_parse_frag.py", "continue_sound", to, path_timeout=to / 2, env=env))
    for spec, alpha, ql, tl in RX_SPECS:
        if spec == "rxstar":
            continue  # r"a+" under * can be split in more than one way: outside the property's class
        # one condition per first character (plus the empty word with the first one): the conditions run in parallel
        for first in (alpha if (ql if tier == "quick" else tl) >= 4 else [""]):
            conds.append(Cond("h_parse_frag.py", "same_as_whole_fa", to, path_timeout=to / 2,
                              env={"H_SPEC": spec, "H_LEN": str(ql if tier == "quick" else tl), "H_ALPHA": alpha, "H_FIRST": first}))
        if (ql if tier == "quick" else tl) >= 4:
            conds.append(Cond("h_parse_frag.py", "same_as_whole_fa", to, path_timeout=to / 2,
                              env={"H_SPEC": spec, "H_LEN": "0", "H_ALPHA": alpha, "H_FIRST": "-"}))
    run.run_conditions(conds, conformance_harnesses=["h_parse_frag.py"])
    run.encoded = PARSER_FUNCS
    run.extra["source_sha256_16"] = source_fingerprint(PARSER_FILES)
    run.bounds = {"word": "str over all code points", "cuts": "every composition into consecutive non-empty fragments (symbolic List[bool])",
                  "max_len": {s: (q if tier == "quick" else t) for s, q, t in FRAG_SPECS}}
    run.bounds["regex terminals"] = "4 grammars with regex terminals, ALL words over a 2-4 letter alphabet up to length 3-4 and every fragmentation (cuts inside regex matches)"
    run.outside = ["regex terminals on words outside the stated finite alphabets", "bytes / bit-level inputs", "FandangoIO.add_receive threading"]
    run.assumptions = TRUST
    return run.finish(
        "Bounded symbolic execution of IterativeParser.consume per fragment with the word AND every cut position symbolic: the "
        "complete parses after the last fragment equal those of a single consume(word); can_continue() may be false only when the "
        "reference prefix-viability oracle says no extension of the consumed input is in the language.",
        "one evaluation = one explored execution path (word class x fragmentation); non-trivial = paths of main conditions")
