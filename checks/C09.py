"""C09 - a tree's value is the in-order concatenation of its leaves; views agree; no interference."""
from engine.driver import Cond, Run, source_fingerprint

FILES = ["fandango/language/tree_value.py", "fandango/language/tree.py", "fandango/language/symbols/symbol.py",
         "fandango/language/symbols/terminal.py"]


def run(tier):
    run = Run("C09", tier)
    run.confirm_known()
    q = tier == "quick"
    to = 900 if q else 3000
    # thorough: the full 4-class alphabet, every cut position, more three-leaf kind sequences, request orders of length 3
    # (general three-item sequences with symbolic kinds cost > 1.5 h on 4 cores and were replaced by fixed-kind conditions)
    base = {"H_ITEMS": "2", "H_TEXT": "a\xe9€" if q else "a\xe9€\U0001f600", "H_TLEN": "1"}
    if not q:
        base["H_SPLITS"] = "all"
    conds = []
    for which in range(5):  # 0 to_bits, 1 to_bytes, 2 to_string, 3 bytes(), 4 str()
        conds.append(Cond("h_value.py", "views_match", to, twin="reach" if which in (1, 2) else None, path_timeout=to / 2,
                          env=dict(base, H_WHICH=str(which))))
    # three-leaf sequences with a bit run between two valued leaves (quick tier: leaf sequence fixed per condition)
    for kinds in ("0,2,0", "0,3,0", "1,2,0", "0,2,1", "2,0,2") + (() if q else ("1,3,1", "3,0,3", "2,1,2", "0,1,2")):
        for which in (1, 2):
            conds.append(Cond("h_value.py", "views_match", to, path_timeout=to / 2, env=dict(base, H_WHICH=str(which), H_KINDS=kinds, H_ITEMS="3")))
    conds.append(Cond("h_value.py", "views_match", to, path_timeout=to / 2, env=dict(base, H_WHICH="5")))  # int() of bit-only trees
    for first in range(3):
        conds.append(Cond("h_value.py", "order_independent", to, path_timeout=to / 2,
                          env={"H_ITEMS": "2", "H_ORDER": "2" if q else "3", "H_FIRST": str(first)}))
    run.run_conditions(conds, conformance_harnesses=["h_value.py"])
    run.encoded = ["TreeValue.__init__/append/_reduce_trailing_bits/to_string/to_bytes/to_bits/type_/__str__/__bytes__",
                   "DerivationTree.value/to_string/to_bytes/to_bits/__str__/__bytes__", "Terminal.__init__", "Symbol.value"]
    run.extra["source_sha256_16"] = source_fingerprint(FILES)
    run.bounds = {"leaf sequence": f"<= {base['H_ITEMS']} items of: text leaf | bytes leaf | run of 8 bit leaves | run of 4 bit leaves (kinds symbolic), plus three-leaf sequences with the kinds fixed per condition",
                  "text": f"len <= {base['H_TLEN']} over {base['H_TEXT']!r} (1-,2-,3-,4-byte UTF-8; inside/outside Latin-1)",
                  "bytes leaf": "len <= 1 over {0x61, 0xe9}", "bit patterns": "00000000, 10100101, 11111111",
                  "nesting": "flat, or the flat leaf list cut into two sibling subtrees (second one nested one level deeper) "
                             + ("at every position" if not q else "after the first leaf / inside the first bit run / before the last leaf / at the end"),
                  "request orders": "first request fixed per condition (bits/bytes/string), later requests symbolic, on the tree and on one shared TreeValue"}
    run.outside = ["int() views of trees with text/bytes leaves (defined only for digit strings)", "longer leaf sequences / other contents", "SliceTree values"]
    run.assumptions = ["finite content alphabets: str.encode and format() realise symbolic contents, so the engine exhausts the stated "
                       "alphabets by path splitting", "oracle written from the property text (harness/h_value.py ref_*)",
                       "CrossHair + plug-in conformance gate; z3 5.1"]
    return run.finish(
        "Bounded symbolic execution of the real TreeValue/DerivationTree.value code over symbolic leaf sequences, contents, nesting "
        "cut and request order; each view is compared with an oracle written from the property text; a value computed repeatedly "
        "(on the tree and on one shared TreeValue) must equal the value of a fresh copy and leave the leaves unchanged.",
        "one evaluation = one explored execution path; non-trivial = paths of main conditions")
