#!/bin/bash
# usage: tools/seedrun.sh <patch.diff> <property-id> [tier]
# Applies a seeded change to /repo, runs the property's check, and ALWAYS reverts /repo afterwards.
P=$(readlink -f "$1"); ID=$2; TIER=${3:-quick}
cd /repo || exit 9
if ! git diff --quiet; then echo "refusing: /repo has uncommitted changes"; exit 9; fi
git apply "$P" || { echo "patch does not apply"; exit 9; }
trap 'git -C /repo checkout -- . ' EXIT
cd /verif && ./check $ID $TIER
RC=$?
echo "seedrun: check $ID exit code $RC"
exit $RC
