#!/usr/bin/env python3
"""condition-level detection run: apply a seed in a scratch worktree, run ONE condition of the property's check with the engine, replay natively"""
import json, os, subprocess, sys, time
name, harness, fn = sys.argv[1:4]
env = dict(kv.split("=", 1) for kv in sys.argv[4:])
wt = f"/tmp/condrun_{name}"
subprocess.run(f"git -C /repo worktree remove --force {wt}", shell=True, capture_output=True)
subprocess.run(f"git -C /repo worktree add -q --detach {wt} HEAD && git -C {wt} apply /verif/seeded/{name}/patch.diff && cp /repo/src/fandango/language/parser/sa_fandango_cpp_parser.so {wt}/src/fandango/language/parser/", shell=True, check=True)
try:
    t0 = time.time()
    e = dict(os.environ, FANDANGO_SRC=f"{wt}/src", PYTHONHASHSEED="1", VERIF_EXCLUDE=json.dumps(json.loads(os.environ.get("EXCL", "[]"))), **env)
    e.pop("FANDANGO_RAISE_ALL_EXCEPTIONS", None)
    p = subprocess.run(["/verif/.venv/bin/python", "/verif/engine/chrun.py", f"/verif/harness/{harness}", fn, "600", "300"], capture_output=True, text=True, cwd="/verif", env=e, timeout=1500)
    line = [l for l in p.stdout.splitlines() if l.startswith("CHRUN=")][-1]
    r = json.loads(line[6:])
    res = {"scope": "single condition (engine verdict + native replay), not the whole check", "harness": harness, "function": fn, "env": env, "status": r["status"], "args": r.get("args"),
           "message": r["message"][:300], "wall_s": round(time.time() - t0)}
    if r["status"] == "refuted" and r.get("args") is not None:
        tmp = f"/tmp/condrun_{name}.json"
        json.dump(r["args"], open(tmp, "w"))
        q = subprocess.run(["/verif/.venv/bin/python", "/verif/engine/native.py", "replay", f"/verif/harness/{harness}", fn, tmp], capture_output=True, text=True, cwd="/verif",
                           env=dict(e, VERIF_NATIVE="1", VERIF_EXCLUDE="[]"))
        nat = [l for l in q.stdout.splitlines() if l.startswith("NATIVE=")]
        res["native_replay"] = json.loads(nat[-1][7:]) if nat else {"result": "error", "stderr": q.stderr[-300:]}
        res["detected"] = res["native_replay"].get("result") == "violated"
    else:
        res["detected"] = False
    dp = f"/verif/seeded/{name}/detection.json"
    d = json.load(open(dp)) if os.path.exists(dp) else {}
    d[f"condition:{harness}:{fn}"] = res
    json.dump(d, open(dp, "w"), indent=1)
    print(name, harness, fn, res["status"], "detected" if res["detected"] else "NOT detected", res["wall_s"], "s", flush=True)
finally:
    subprocess.run(f"git -C /repo worktree remove --force {wt}", shell=True, capture_output=True)
