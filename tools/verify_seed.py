#!/usr/bin/env python3
"""Confirm a seeded change in a scratch worktree of /repo (current HEAD) and file it under /verif/seeded/.

usage: verify_seed.py <property-id> <letter> <agent_dir> [--no-tests]
Steps: worktree of HEAD -> demo passes without the patch -> apply patch -> demo fails -> test suite passes
exactly the BASELINE stable_pass set -> copy patch.diff, demo.py, notes, meta.json -> remove the worktree.
"""
import json, os, shutil, subprocess, sys, xml.etree.ElementTree as ET

pid, letter, adir = sys.argv[1], sys.argv[2], sys.argv[3]
run_tests = "--no-tests" not in sys.argv
wt = f"/tmp/seedwt_{pid}_{letter}"
patch = f"{adir}/patch_{letter}.diff"
demo = f"{adir}/demo_{letter}.py"
notes = f"{adir}/notes_{letter}.md"
out = f"/verif/seeded/{pid}_{letter}"
meta = {"property": pid, "patch": os.path.basename(patch), "base_commit": subprocess.check_output(["git", "-C", "/repo", "rev-parse", "HEAD"], text=True).strip()}


def sh(cmd, **kw):
    return subprocess.run(cmd, shell=True, capture_output=True, text=True, **kw)


sh(f"git -C /repo worktree remove --force {wt}")
r = sh(f"git -C /repo worktree add -q --detach {wt} HEAD")
assert r.returncode == 0, r.stderr
try:
    sh(f"cp /repo/src/fandango/language/parser/sa_fandango_cpp_parser.so {wt}/src/fandango/language/parser/")
    env = dict(os.environ, FANDANGO_SRC=f"{wt}/src", PYTHONPATH=f"{wt}/src", PYTHONHASHSEED="1")
    r0 = subprocess.run(["/venv/bin/python", demo], capture_output=True, text=True, env=env, cwd=wt, timeout=600)
    meta["demo_without_patch"] = {"exit": r0.returncode, "tail": (r0.stdout + r0.stderr)[-300:]}
    ap = sh(f"git -C {wt} apply {patch}")
    meta["applies_to_head"] = ap.returncode == 0
    if ap.returncode != 0:
        ap = sh(f"git -C {wt} apply --3way {patch}")
        meta["applies_3way"] = ap.returncode == 0
        meta["apply_error"] = ap.stderr[-400:]
    if ap.returncode == 0:
        diff = sh(f"git -C {wt} diff").stdout
        r1 = subprocess.run(["/venv/bin/python", demo], capture_output=True, text=True, env=env, cwd=wt, timeout=600)
        meta["demo_with_patch"] = {"exit": r1.returncode, "tail": (r1.stdout + r1.stderr)[-400:]}
        if run_tests:
            xml = f"/tmp/seed_{pid}_{letter}.xml"
            subprocess.run(["/venv/bin/python", "-m", "pytest", "-q", "-p", "no:cacheprovider", "--timeout=900", "-n", os.environ.get("SEED_WORKERS", "6"),
                            "--continue-on-collection-errors", f"--junitxml={xml}"], cwd=wt, env=env, stdout=subprocess.DEVNULL, stderr=subprocess.DEVNULL)
            passed = set()
            for tc in ET.parse(xml).getroot().iter("testcase"):
                if not any(ch.tag in ("failure", "error", "skipped") for ch in tc):
                    passed.add(f"{tc.get('classname','')}::{tc.get('name')}")
            base = set(json.load(open("/root/.vp/BASELINE.json"))["stable_pass"])
            meta["tests"] = {"passed": len(passed), "baseline": len(base), "baseline_tests_not_passing": sorted(base - passed)[:10]}
            os.unlink(xml)
        ok = meta["demo_without_patch"]["exit"] == 0 and meta["demo_with_patch"]["exit"] != 0
        meta["confirmed"] = bool(ok and (not run_tests or not meta["tests"]["baseline_tests_not_passing"]))
        os.makedirs(out, exist_ok=True)
        open(f"{out}/patch.diff", "w").write(diff)
        shutil.copy(demo, f"{out}/demo.py")
        if os.path.exists(notes):
            shutil.copy(notes, f"{out}/notes.md")
            meta["needs_to_manifest"] = open(notes).read()[:1500]
        meta["what_was_run"] = ["demo without patch (expect exit 0)", "demo with patch (expect exit 1)"] + (["full test suite with PYTHONPATH=<worktree>/src vs BASELINE stable_pass"] if run_tests else [])
        json.dump(meta, open(f"{out}/meta.json", "w"), indent=1)
    print(json.dumps({k: meta.get(k) for k in ("property", "patch", "applies_to_head", "confirmed", "demo_without_patch", "demo_with_patch", "tests")}, indent=None)[:900])
finally:
    sh(f"git -C /repo worktree remove --force {wt}")
