#!/usr/bin/env python3
"""Regenerates /verif/MANIFEST.json from the table below (kept in one place so it stays valid)."""
import json
import os

ROOT = os.path.dirname(os.path.dirname(os.path.abspath(__file__)))

TB = ("CrossHair 0.0.110 symbolic executor + engine/plugin.py adaptations (validated per run by the native-vs-traced "
      "conformance gate), z3 5.1, the reference oracle in the harness, CPython 3.12")

CLAIMED = {
    "C04": dict(
        technique="bounded symbolic execution of the real Earley parser (CrossHair+z3) on a symbolic word; independent derivation checker as oracle",
        text="Every execution path of IterativeParser on ANY str word up to the length bound (all code points) over a fixed family of 7 literal-terminal grammars is discharged by z3: each yielded tree is a derivation (independent checker), serialises to the word, has the requested root and no helper symbols. Counterexamples are replayed natively before being reported. Bounded: nothing is claimed for longer words, other grammars or regex terminals.",
        note="Trusted: " + TB + ". Outside: regex terminals, words beyond the bound, grammars outside the family.",
        ref="DESIGN.md section 3 C04"),
}

CLAIMED["C03"] = dict(
    engine="E2-pysym",
    technique="AST->SMT (z3 Float64) translation of Evaluator.evaluate_individual, threshold-completeness query over all constraint counts; plus CrossHair execution of the real Evaluator over all declaration orders",
    text="z3 decides, on a formula generated from the current source of Evaluator.evaluate_individual/_evaluate_constraints/ConstraintFitness.fitness and IoEvaluator.evaluate_individual, that no counts h, r <= 64 (thorough 1000) of satisfied hard/repetition-bound constraints make an all-satisfied first-seen tree miss the acceptance threshold (IEEE-754 double, RNE). The translator is validated on >=200 random concrete vectors against the real Evaluator (bit-identical floats); class-mean lemma proved for k<=12 (64). Declaration orders: CrossHair executes the real constructor and evaluate_individual for every hard/rep order of length <= 6 (10).",
    note="Trusted: z3 5.1 FP theory, engine/pysym.py (validated per run), stubs listed in evidence (cache miss, first-seen tree, logging no-op). Outside: soft constraints, more constraints than the bound, protocol-message gating of IoEvaluator.",
    ref="DESIGN.md section 3 C03")

NOT_APPLICABLE = {
    "C08": "the translator under test is ANTLR-generated lexer/parser code plus visitors over its parse tree; a symbolic program text is realised character by character by the ATN simulator, so no solver-based engine here can quantify over programs (DESIGN.md section 5)",
    "C14": "one side is a compiled C++ extension (sa_fandango_cpp_parser.so); CrossHair realises at the C boundary and no IR-level symbolic engine for C++ is available (DESIGN.md section 5)",
    "C17": "a statement about two whole OS processes of the full evolutionary pipeline; its nondeterminism sources (hash randomisation, id(), clocks) are not modelled by any available engine and no bounded unit captures it (DESIGN.md section 5)",
}


def main():
    props = [json.loads(l) for l in open(os.path.join(ROOT, "properties.jsonl"))]
    checks = []
    na = []
    for p in props:
        pid = p["id"]
        if pid in CLAIMED:
            c = CLAIMED[pid]
            checks.append({
                "property_id": pid,
                "quick_cmd": f"./check {pid} quick",
                "thorough_cmd": f"./check {pid} thorough",
                "evidence_file": f"/verif/evidence/{pid}.json",
                "replay_cmd_template": f"./check {pid} --replay {{path}}",
                "engine": c.get("engine", "E1-crosshair-plugin"),
                "level_claimed": {"category": "other", "text": c["text"], "design_ref": c["ref"]},
                "level_note": c["note"],
                "technique": c["technique"],
            })
        elif pid in NOT_APPLICABLE:
            na.append({"property_id": pid, "reason": NOT_APPLICABLE[pid]})
        else:
            na.append({"property_id": pid, "reason": "check not built yet in this round (planned, see DESIGN.md section 3); not claimed until its check runs clean"})
    m = {
        "version": 1,
        "setup_cmd": "./setup.sh",
        "hooks": {
            "guard": "FANDANGO_VERIF",
            "enable": "no source hooks are needed: every stub (random, time, Column.add counter) is applied from the harness process by rebinding module attributes; checks import /repo/src directly (PYTHONPATH first) so they always see the current working tree",
            "baseline_off_cmd": "cd /repo && PYTHONPATH=/repo/src /venv/bin/python -m pytest -ra -q -p no:cacheprovider --timeout=900 --continue-on-collection-errors",
            "source_commits": [],
            "add_only": True,
        },
        "engines": [
            {"name": "E1-crosshair-plugin", "path": "engine/chrun.py", "kind_free_text": "CrossHair 0.0.110 symbolic execution of the real Python modules with z3, plus Fandango plug-in (engine/plugin.py); one process per condition", "serves_properties": sorted(k for k, v in CLAIMED.items() if v.get("engine", "E1-crosshair-plugin") == "E1-crosshair-plugin")},
            {"name": "E2-pysym", "path": "engine/pysym.py", "kind_free_text": "AST -> SMT (z3 Float64/Int) translation of numeric kernels, regenerated from the current source on every run", "serves_properties": sorted(k for k, v in CLAIMED.items() if v.get("engine") == "E2-pysym")},
            {"name": "E3-gre", "path": "engine/gre.py", "kind_free_text": "grammar IR -> z3 regular expressions; language equality/membership queries over all words", "serves_properties": sorted(k for k, v in CLAIMED.items() if v.get("engine") == "E3-gre")},
        ],
        "checks": checks,
        "not_applicable": na,
        "notes": "Technique family: solver-based checking of the real code. Exit 3 = inconclusive/harness error (never a pass). Known findings: /verif/known_findings.json.",
    }
    json.dump(m, open(os.path.join(ROOT, "MANIFEST.json"), "w"), indent=1)
    print("MANIFEST.json:", len(checks), "checks,", len(na), "not applicable")


if __name__ == "__main__":
    main()
