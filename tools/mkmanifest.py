#!/usr/bin/env python3
"""Regenerates /verif/MANIFEST.json from the table below (kept in one place so it stays valid)."""
import json
import os

ROOT = os.path.dirname(os.path.dirname(os.path.abspath(__file__)))

TB = ("CrossHair 0.0.110 symbolic executor + engine/plugin.py adaptations (validated per run by the native-vs-traced "
      "conformance gate), z3 5.1, the reference oracle in the harness, CPython 3.12")

E1 = "Trusted: " + TB + "."

CLAIMED = {
    "C01": dict(
        technique="bounded symbolic execution (CrossHair+z3) of Grammar.fuzz and of the repair/crossover/mutation pipeline with every random draw symbolic; independent derivation checker as oracle",
        text="(a) Unit steps: for the real Alternative/Concatenation/Repetition/Star/Plus/Option/NonTerminalNode.fuzz with stub sub-nodes, symbolic bounds, budgets, override arguments and draws, every path expands exactly the children the node's grammar meaning allows and tags iterations consistently. (b) All seeds within the draw bound: every execution path of Grammar.fuzz on 6 grammars (draws <= 8, budgets {0,2,5,12}); (c) the pipeline fuzz -> evaluate -> repetition/equality repair -> repair | crossover | mutation on 5 specs (incl. a repeated group with inner and trailing terminals): every produced tree is a derivation (independent checker), rooted at the start symbol, helper-free, with consistent bookkeeping. Bounded; the induction from per-step validity to whole search histories is not mechanised.",
        note=E1 + " Outside: regex terminals, generators (C16), non-default Gmutator settings, whole evolutionary runs.", ref="DESIGN.md section 3 C01"),
    "C02": dict(
        technique="AST->SMT (z3 Float64) threshold-soundness query on Evaluator.evaluate_individual + CrossHair execution of real constraints/Evaluator on symbolic trees (exception path)",
        text="E2: z3 shows on the formula generated from the current source that no assignment of per-constraint results (solved/total <= 1000, or raising) with h+r <= 2 (thorough <= 4) lets a tree be yielded while a hard or repetition-bound constraint is violated or raised (IEEE doubles; quotient lemma proved separately). E1: 8 constraint programs whose evaluation can raise, on all trees of the C07 bound: a raising combination makes the constraint fail, fitness < 1, and the real Evaluator does not yield the tree. (c) a spec with two computed repetitions over the same item whose printed forms coincide: the real Evaluator enforces both bounds on every tree of the family.",
        note=E1 + " Plus engine/pysym.py (validated per run against the real Evaluator, bit-identical floats). Outside: liveness, whole runs, soft constraints.", ref="DESIGN.md section 3 C02"),
    "C03": dict(
        engine="E2-pysym",
        technique="AST->SMT (z3 Float64) translation of Evaluator.evaluate_individual, threshold-completeness query over all constraint counts; plus CrossHair execution of the real Evaluator over all declaration orders",
        text="z3 decides, on a formula generated from the current source of Evaluator.evaluate_individual/_evaluate_constraints/ConstraintFitness.fitness and IoEvaluator.evaluate_individual, that no counts h, r <= 64 (thorough 1000) of satisfied hard/repetition-bound constraints make an all-satisfied first-seen tree miss the acceptance threshold (IEEE-754 double, RNE). The translator is validated on >=200 random concrete vectors against the real Evaluator (bit-identical floats); class-mean lemma proved for k<=12 (64). Declaration orders: CrossHair executes the real constructor and evaluate_individual for every hard/rep order of length <= 6 (10). Generation loop: the repair + re-evaluation statements of Fandango._generate_simple (extracted from the current source) report every satisfying individual they evaluate for the first time, for every 2-individual population over 16 trees and every already-evaluated pattern.",
        note="Trusted: z3 5.1 FP theory, engine/pysym.py (validated per run), stubs listed in evidence (cache miss, first-seen tree, logging no-op). Outside: soft constraints, more constraints than the bound, protocol-message gating of IoEvaluator.",
        ref="DESIGN.md section 3 C03"),
    "C04": dict(
        technique="bounded symbolic execution of the real Earley parser (CrossHair+z3) on a symbolic word; independent derivation checker as oracle",
        text="Every execution path of IterativeParser on ANY str word up to the length bound (all code points) over 12 literal-terminal grammars is discharged by z3: each yielded tree is a derivation (independent checker), serialises to the word, has the requested root and no helper symbols. 6 grammars with regex terminals: the same for ALL words over a stated 2-4 letter alphabet up to length 3-4 (finite-alphabet conditions). Public API: Grammar.parse_forest after a symbolic earlier request (cache key), bytes words on a bytes grammar, and Fandango.parse's filter on repetition bounds. Counterexamples are replayed natively before being reported. Bounded: nothing is claimed for longer words or other grammars.",
        note=E1 + " Outside: regex terminals on words outside the stated alphabets, words beyond the bound, grammars outside the family, bit-level inputs.", ref="DESIGN.md section 3 C04"),
    "C05": dict(
        technique="bounded symbolic execution of the real parser vs a reference recogniser (both directions) + Grammar.fuzz round trip with symbolic draws",
        text="For 12 literal-terminal grammars (incl. empty-deriving repetition bodies, the same nullable symbol twice, {0,m}) and ANY str word up to the bound: the real parser yields a tree iff the reference recogniser accepts; 6 regex-terminal grammars (incl. a regex that matches the empty string): the same for ALL words over a stated alphabet up to length 3-4. For 5 grammars and every draw sequence within the bound, plus regex terminals through a stubbed generator, a bytes grammar and a bytes regex with a whitespace class next to control bytes: the serialisation of the generated tree parses back to a tree with the same serialisation. One genuine incompleteness is carried as known finding C05-starrep.",
        note=E1 + " Outside: regex terminals on words outside the stated alphabets, bit-level grammars, the constraint filter of --validate.", ref="DESIGN.md section 3 C05"),
    "C06": dict(
        technique="bounded symbolic execution of the real parser with the number of admitted Earley states counted against a bound derived from the compiled rule table",
        text="For 15 literal-terminal grammars (nested repetitions, left/right recursion, optional/empty-deriving symbols under *, +, {n,} and in sequences) and ANY str word up to the bound, in forest mode and (for 7 grammars) prefix mode, and for 6 regex-terminal grammars on ALL words over a stated alphabet up to length 3-4 in both modes: the number of admitted Earley states stays below 8*(#dotted rules)*(n+1)^2+64 on every path, i.e. the parse terminates; the twin shows the counter is live.",
        note=E1 + " Outside: grammars that are themselves cyclic through nullable user recursion, regex terminals on words outside the stated alphabets, prefix mode on left-recursive grammars (ends with RecursionError = raises).", ref="DESIGN.md section 3 C06"),
    "C07": dict(
        technique="bounded symbolic execution of real constraint objects (eager and lazy) on symbolic trees; differential against a reference evaluator written from the documentation",
        text="29 constraint programs covering every selector and combinator named in the property, each read by the real reader; for EVERY tree of the bound (1-2 records over leaf alphabet {0,5,a}) check() equals the reference verdict, lazy equals eager, fitness < 1 when violated, and a one-constraint Evaluator yields the tree exactly when the constraint holds.",
        note=E1 + " Constraint programs are a fixed list (not solver variables). Outside: other grammars, deeper trees, '->'.", ref="DESIGN.md section 3 C07"),
    "C08": dict(
        technique="bounded symbolic execution (CrossHair+z3) of the code objects Fandango builds from embedded Python vs CPython's own compilation of the same text, on symbolic data; one verdict per program of an enumerated corpus",
        text="In part: programs are ENUMERATED (the ANTLR front end cannot run on symbolic text), data is symbolic. For each of ~320 expressions (all 121 ordered pairs of binary operators, unary/comparison/boolean/conditional operators, lambdas with every parameter kind, comprehensions, slices, calls with */** arguments, literals, f-strings, symbol references inside nested scopes), 24 top-level constraint formulas and 31 helper-code programs (parameter kinds, defaults, closures, control flow, exceptions, with, classes, augmented assignment, unpacking, imports, generators, decorators): what Fandango executes - the constraint object evaluated through Constraint.check(), resp. the function run_code() defined - returns the same type-exact value or raises the same exception class as CPython's compilation of the same text, for ALL ints in the stated range, strings over {a,b} and leaf contents over {0,2,7,a}. Programs the reader rejects with an error are reported, not compared. Three classes of genuine deviations are carried as known findings (f-string literal parts, f-string '='/'{{', top-level not/comparison chains).",
        note=E1 + " NOT covered: the space of programs beyond the corpus, AST equality, generator (:=) and repetition-bound expression sites, the C++ front end.", ref="DESIGN.md section 10"),
    "C09": dict(
        technique="bounded symbolic execution of TreeValue / DerivationTree.value over symbolic leaf sequences, contents, nesting and request order; oracle from the property text",
        text="For every leaf sequence (<= 2 items quick / 3 with the leaf kinds fixed per condition: text, bytes, 8-bit run, 4-bit run), content from alphabets spanning the UTF-8 length classes and the Latin-1 boundary, flat or cut into sibling subtrees, each view (str, bytes, to_string, to_bytes, value().to_string, int of bit-only trees) equals the in-order concatenation oracle (or raises exactly when a bit run is misaligned), and any order of repeated requests on the tree and on one shared TreeValue gives the results of a fresh copy and leaves the leaves unchanged.",
        note=E1 + " Finite content alphabets (encode/format realise symbolic contents). Outside: int() of text/bytes trees, longer sequences.", ref="DESIGN.md section 3 C09"),
    "C10": dict(
        technique="bounded symbolic execution of sequences of public tree operations; from-scratch recomputation and object-identity snapshots as oracle",
        text="For 3 initial trees and every sequence of 2 of 16 public operations (quick: reduced operand and follow-up sets) with symbolic operands, after every step every tree object held (including an 'already emitted' copy) has size/hash/equality equal to from-scratch recomputation and consistent parent links; read-only accessors and copy-producing operators leave their inputs identical, object identities included.",
        note=E1 + " Outside: longer sequences, parser-internal ParserDerivationTree.", ref="DESIGN.md section 3 C10"),
    "C11": dict(
        technique="bounded symbolic execution of an evaluate/edit/evaluate history on long-lived constraint+evaluator objects vs separate objects with empty caches",
        text="For 4 (thorough 38) constraint programs incl. nested rebinding quantifiers and every tree/edit in the bound: after evaluating tree A, the fitness, verdict, solved/total and failing trees reported for tree B (A with one leaf replaced - as a new tree or by editing the evaluated object in place) equal those of fresh objects. Look-alike trees: on an ambiguous grammar, two derivations of the same string evaluated one after the other by one Evaluator each get the verdict fresh objects give. Repeated evaluation of one tree by successive Evaluators sharing the constraint objects reports the same failing parts as fresh objects.",
        note=E1 + " 'Fresh' objects are separate constraint objects with emptied caches. Outside: longer histories, soft constraints.", ref="DESIGN.md section 3 C11"),
    "C12": dict(
        technique="bounded symbolic execution of the real Parser (cache included) under a symbolic history of parse-type requests vs a fresh Parser",
        text="For 5 grammars (one ambiguous) and every history of <= 2 (thorough 3) requests (quick tier: the ambiguous grammar with one target word, the others with one request) out of 9 kinds (first tree, full forest, abandoned iteration, unstarted generator, prefix mode first tree / all trees, other start symbol, mutation of returned trees at root/leaves) on words from a finite list (complete words and strict prefixes): the complete-mode forest, the first tree for another start symbol and the prefix-mode first tree and forest then served for a target word equal a fresh Parser's, origin_repetitions up to renaming. API level: what Fandango.parse yields does not depend on a symbolic history of earlier init_population calls with extra constraints.",
        note=E1 + " Outside: hookin_parent requests, interleaving two live generators.", ref="DESIGN.md section 3 C12"),
    "C13": dict(
        technique="bounded symbolic execution of IterativeParser.consume per fragment with the word and every cut position symbolic",
        text="For 7 literal-terminal grammars, ANY str word up to the bound and EVERY composition into consecutive fragments: the complete parses after the last fragment equal those of consuming the word at once, and can_continue() is false only if the reference prefix-viability oracle says no extension is in the language. 5 regex-terminal grammars: ALL words over a stated alphabet up to length 3-4 and every fragmentation (cuts inside regex matches).",
        note=E1 + " Outside: regex terminals on words outside the stated alphabets or whose matches can be split ambiguously under a repetition, bytes/bit inputs, the threaded receive path.", ref="DESIGN.md section 3 C13"),
    "C15": dict(
        engine="E3-gre",
        technique="grammar IR -> z3 regular expressions; language-equality query (all words) between each grammar shape and its printed-and-reread form; CrossHair for literal quoting",
        text="Grammars: for ~180 (thorough ~1600) generated grammar shapes (every postfix operator over terminals, nonterminals, grouped alternatives and sequences, bytes and non-ASCII literals, nested to depth 2/3, in 5 contexts) z3 decides that the grammar printed by repr() and read back denotes the same language for ALL words (no length bound). Seven shapes pair a literal and a regex terminal with the same text (regex subset translated to z3). Constraints: each of the 38 programs of the C07 family is printed with format_as_spec() and read back; those that read back agree with the original on EVERY tree of the C07 bound (CrossHair); three classes that do not read back or change meaning are genuine defects listed as known findings. Literal quoting: Terminal.format_as_spec -> from_symbol round-trips every str/bytes of length <= 2 (3) over a 12-character alphabet with both quotes, backslash, newline, NUL, non-ASCII.",
        note="" + E1 + " Outside: regex terminals on words outside the stated alphabets, words beyond the bound, grammars outside the family, bit-level inputs.", ref="DESIGN.md section 3 C15"),
    "C16": dict(
        technique="bounded symbolic execution of generation and subtree replacement on specs with generators (symbolic draws, symbolic generator return value, symbolic replaced node)",
        text="For 5 specs (two distinct arguments, same symbol twice, nested generated argument, a re-run value that does not fit its rule, stub generator): on every path each generator-defined field equals the generator (re-implemented in the harness) applied to the arguments recorded in .sources, its children are read-only; replace() of any node (sources included) keeps these invariants, never replaces read-only nodes, never modifies its input; a stub value that does not fit the rule raises FandangoParseError, a fitting one appears verbatim.",
        note=E1 + " Outside: random generators, converters, longer operator histories.", ref="DESIGN.md section 3 C16"),
    "C18": dict(
        technique="bounded symbolic execution of the real adaptive step (extracted from the current source) inside the real generate(), observing an unrelated spec object; symbolic parse-request histories over two spec objects",
        text="For every fitness/diversity trajectory in the bound (1 generation with threshold-straddling value sets, 2 generations with reduced sets) and both ways of ending the run (exhausted, abandoned+closed), all observables of an unrelated spec object B - repetition caps, compiled parse table, tuner start values - are unchanged afterwards; parse answers of two spec objects with look-alike regex/literal terminals are independent of the request history.",
        note=E1 + " Outside: interleaving two active runs (the cap is process-wide by design while a run is active), FandangoIO singletons.", ref="DESIGN.md section 3 C18"),
    "C19": dict(
        technique="bounded symbolic execution of the real PacketForecaster along every message history in the depth bound; z3 regular-expression reference for continuations and completeness",
        text="For 6 protocol specs (two alternatives beginning with the same factored-out sub-rule; option/star/bounded repetition/nesting; alternation with a two-message branch under a star; repeated two-message group; nested repetition of alternatives; one message type sent by both parties) and 2 specs sliced to a subset of parties, and EVERY message history of depth <= 3 (thorough 5) reachable through the offered options: the offered (sender, recipient, type) set equals the continuation set of the message-level language and 'complete' is reported exactly for full interactions - both decided by z3 on a regular expression derived from the grammar IR (for sliced specs: from the unsliced IR with a harness-owned slicing).",
        note=E1 + " Outside: computed repetitions in protocol grammars, deeper histories, generators in protocol specs.", ref="DESIGN.md section 3 C19"),
    "C20": dict(
        technique="bounded symbolic execution of the real receive path (parse_next_remote_packet + FandangoIO buffer) under symbolic remote data, interleaving and arrival schedule; z3 send-gate query on IoEvaluator",
        text="In part (units, not the threaded loop): for every remote text of <= 2 (3) characters, every position of an interleaved third-party fragment and 0-2 fragments arriving late (time.sleep stub), the returned tree spells exactly the consumed fragments of one sender in order, exactly those leave the buffer, attribution is the forecast's, and data fitting no expected type raises; while the next message is generated, evaluated and repaired (symbolic draws) the recorded history stays byte- and attribution-identical; z3 shows on the formula generated from IoEvaluator.evaluate_individual that nothing is yielded (sent) while a constraint is violated or raises.",
        note=E1 + " NOT covered: the threaded socket loop of _generate_io, real transports, thread interleavings inside add_receive, the accept step's re-evaluation, bytes-level data.", ref="DESIGN.md section 3 C20"),
}

NOT_APPLICABLE = {
    "C14": "one side is a compiled C++ extension (sa_fandango_cpp_parser.so); CrossHair realises at the C boundary and no IR-level symbolic engine for C++ is available (DESIGN.md section 5)",
    "C17": "a statement about two whole OS processes of the full evolutionary pipeline; its nondeterminism sources (hash randomisation, id(), clocks) are not modelled by any available engine and no bounded unit captures it (DESIGN.md section 5)",
}


def main():
    props = [json.loads(l) for l in open(os.path.join(ROOT, "properties.jsonl"))]
    checks = []
    na = []
    for p in props:
        pid = p["id"]
        if pid in CLAIMED:
            c = CLAIMED[pid]
            checks.append({
                "property_id": pid,
                "quick_cmd": f"./check {pid} quick",
                "thorough_cmd": f"./check {pid} thorough",
                "evidence_file": f"/verif/evidence/{pid}.json",
                "replay_cmd_template": f"./check {pid} --replay {{path}}",
                "engine": c.get("engine", "E1-crosshair-plugin"),
                "level_claimed": {"category": "other", "text": c["text"], "design_ref": c["ref"]},
                "level_note": c["note"],
                "technique": c["technique"],
            })
        elif pid in NOT_APPLICABLE:
            na.append({"property_id": pid, "reason": NOT_APPLICABLE[pid]})
        else:
            na.append({"property_id": pid, "reason": "check not built yet in this round (planned, see DESIGN.md section 3); not claimed until its check runs clean"})
    m = {
        "version": 1,
        "setup_cmd": "./setup.sh",
        "hooks": {
            "guard": "FANDANGO_VERIF",
            "enable": "no source hooks are needed: every stub (random, time, Column.add counter) is applied from the harness process by rebinding module attributes; checks import /repo/src directly (PYTHONPATH first) so they always see the current working tree",
            "baseline_off_cmd": "cd /repo && PYTHONPATH=/repo/src /venv/bin/python -m pytest -ra -q -p no:cacheprovider --timeout=900 --continue-on-collection-errors",
            "source_commits": [],
            "add_only": True,
        },
        "engines": [
            {"name": "E1-crosshair-plugin", "path": "engine/chrun.py", "kind_free_text": "CrossHair 0.0.110 symbolic execution of the real Python modules with z3, plus Fandango plug-in (engine/plugin.py); one process per condition", "serves_properties": sorted(k for k, v in CLAIMED.items() if v.get("engine", "E1-crosshair-plugin") == "E1-crosshair-plugin")},
            {"name": "E2-pysym", "path": "engine/pysym.py", "kind_free_text": "AST -> SMT (z3 Float64/Int) translation of numeric kernels, regenerated from the current source on every run", "serves_properties": sorted(k for k, v in CLAIMED.items() if v.get("engine") == "E2-pysym")},
            {"name": "E3-gre", "path": "engine/gre.py", "kind_free_text": "grammar IR -> z3 regular expressions; language equality/membership queries over all words", "serves_properties": sorted(k for k, v in CLAIMED.items() if v.get("engine") == "E3-gre")},
        ],
        "checks": checks,
        "not_applicable": na,
        "notes": "Technique family: solver-based checking of the real code. Exit 3 = inconclusive/harness error (never a pass). Known findings: /verif/known_findings.json.",
    }
    json.dump(m, open(os.path.join(ROOT, "MANIFEST.json"), "w"), indent=1)
    print("MANIFEST.json:", len(checks), "checks,", len(na), "not applicable")


if __name__ == "__main__":
    main()
