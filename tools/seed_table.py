#!/usr/bin/env python3
"""Prints the markdown table 'seeded change -> check result' from /verif/seeded/*/detection.json."""
import json, os, re
root = "/verif/seeded"
print("| seeded change | what it needs to manifest (from its notes) | check run | result |")
print("|---|---|---|---|")
for name in sorted(os.listdir(root)):
    d = os.path.join(root, name)
    if name.startswith("_") or not os.path.exists(f"{d}/meta.json"):
        continue
    m = json.load(open(f"{d}/meta.json"))
    notes = open(f"{d}/notes.md").read() if os.path.exists(f"{d}/notes.md") else ""
    first = ""
    for line in notes.splitlines():
        l = line.strip(" -#*")
        if len(l) > 40:
            first = l
            break
    first = re.sub(r"\s+", " ", first)[:170].replace("|", "/")
    det = json.load(open(f"{d}/detection.json")) if os.path.exists(f"{d}/detection.json") else {}
    if not det:
        print(f"| {name} | {first} | - | not run |")
    for k, v in det.items():
        if k.startswith("condition:"):
            res = ("**detected** (condition-level: native False on a conformance input of the property function, replayed; the traced run is blind)" if v.get("native_conformance_input")
                   else "**detected** (condition-level: engine counterexample, replayed natively)") if v.get("detected") else f"not detected ({v.get('status')})"
            print(f"| {name} | {first} | condition `{v['harness']}:{v['function']}` {v.get('env') or ''} ({v['wall_s']} s) | {res} |")
            continue
        res = "**detected** (VIOLATION, replayed)" if v["exit"] == 1 else "missed (exit 0)" if v["exit"] == 0 else "inconclusive (exit 3)"
        print(f"| {name} | {first} | `./check {k.replace(':', ' ')}` ({v['wall_s']} s) | {res} |")
