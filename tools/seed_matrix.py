#!/usr/bin/env python3
"""Run the property's check (and optionally other checks) against each confirmed seeded change.
The change is applied in a scratch worktree of /repo HEAD and the check is pointed at it with FANDANGO_SRC;
evidence/replays of these runs go to a scratch directory (VERIF_OUT), never to /verif/evidence.

usage: seed_matrix.py [seed-dir-name ...] [--tier quick] [--also C10,C11]
"""
import json, os, shutil, subprocess, sys, time

ROOT = "/verif"
args = [a for a in sys.argv[1:] if not a.startswith("--")]
tier = "quick"
also = []
for i, a in enumerate(sys.argv):
    if a == "--tier":
        tier = sys.argv[i + 1]
    if a == "--also":
        also = sys.argv[i + 1].split(",")
args = [a for a in args if a not in (tier, ",".join(also))]
seeds = args or sorted(os.listdir(f"{ROOT}/seeded"))
for name in seeds:
    d = f"{ROOT}/seeded/{name}"
    if not os.path.exists(f"{d}/meta.json"):
        continue
    meta = json.load(open(f"{d}/meta.json"))
    if not meta.get("confirmed"):
        continue
    pid = meta["property"]
    wt = f"/tmp/seedrun_{name}"
    out = f"/tmp/seedout_{name}"
    subprocess.run(f"git -C /repo worktree remove --force {wt}", shell=True, capture_output=True)
    shutil.rmtree(out, ignore_errors=True)
    r = subprocess.run(f"git -C /repo worktree add -q --detach {wt} HEAD && git -C {wt} apply {d}/patch.diff && cp /repo/src/fandango/language/parser/sa_fandango_cpp_parser.so {wt}/src/fandango/language/parser/",
                       shell=True, capture_output=True, text=True)
    if r.returncode != 0:
        print(name, "patch does not apply to HEAD:", r.stderr[-200:])
        subprocess.run(f"git -C /repo worktree remove --force {wt}", shell=True, capture_output=True)
        continue
    res = json.load(open(f"{d}/detection.json")) if os.path.exists(f"{d}/detection.json") else {}
    try:
        for chk in [pid] + also:
            t0 = time.time()
            p = subprocess.run([f"{ROOT}/check", chk, tier], capture_output=True, text=True, cwd=ROOT,
                               env=dict(os.environ, FANDANGO_SRC=f"{wt}/src", VERIF_OUT=out), timeout=4 * 3600)
            lines = [l for l in p.stdout.splitlines() if l.startswith(("VIOLATION", "HARNESS-ERROR", "KNOWN-FINDING")) or " held" in l or "VIOLATED" in l or "INCONCLUSIVE" in l]
            res[f"{chk}:{tier}"] = {"exit": p.returncode, "detected": p.returncode == 1, "wall_s": round(time.time() - t0), "lines": [l[:300] for l in lines][:8],
                                    "head": subprocess.check_output(["git", "-C", "/repo", "rev-parse", "--short", "HEAD"], text=True).strip(),
                                    "verif": subprocess.check_output(["git", "-C", ROOT, "rev-parse", "--short", "HEAD"], text=True).strip()}
            print(name, chk, tier, "exit", p.returncode, "detected" if p.returncode == 1 else "MISSED" if p.returncode == 0 else "inconclusive", round(time.time() - t0), "s", flush=True)
        json.dump(res, open(f"{d}/detection.json", "w"), indent=1)
    finally:
        subprocess.run(f"git -C /repo worktree remove --force {wt}", shell=True, capture_output=True)
        shutil.rmtree(out, ignore_errors=True)
