#!/usr/bin/env python3
"""Run the repository's test suite against /repo/src (guard off - there are no hooks) and compare the
set of passing tests with /root/.vp/BASELINE.json stable_pass."""
import json, os, subprocess, sys, xml.etree.ElementTree as ET

out = "/tmp/baseline_run.xml"
env = dict(os.environ, PYTHONPATH="/repo/src")
env.pop("FANDANGO_VERIF", None)
n = os.environ.get("BASELINE_WORKERS", "8")
subprocess.run(["/venv/bin/python", "-m", "pytest", "-ra", "-q", "-p", "no:cacheprovider", "--timeout=900", "-n", n,
                "--continue-on-collection-errors", f"--junitxml={out}"], cwd="/repo", env=env,
               stdout=subprocess.DEVNULL, stderr=subprocess.DEVNULL)
passed = set()
for tc in ET.parse(out).getroot().iter("testcase"):
    if not any(ch.tag in ("failure", "error", "skipped") for ch in tc):
        cls = tc.get("classname", "")
        passed.add(f"{cls}::{tc.get('name')}")
base = set(json.load(open("/root/.vp/BASELINE.json"))["stable_pass"])
missing = sorted(base - passed)
print(f"passed now: {len(passed)}; baseline stable_pass: {len(base)}; baseline tests not passing now: {len(missing)}")
for m in missing[:40]:
    print("  MISSING", m)
sys.exit(1 if missing else 0)
