#!/bin/bash
# Offline set-up of the checking environment: an overlay venv on top of /venv (which holds the
# repository's own dependencies) with crosshair-tool + z3-solver from the local wheelhouse.
set -e
cd "$(dirname "$0")"
V=/verif/.venv
if [ ! -x $V/bin/python ] || ! $V/bin/python -c "import crosshair, z3" 2>/dev/null; then
  rm -rf $V
  /venv/bin/python -m venv $V
  SP=$($V/bin/python -c "import sysconfig; print(sysconfig.get_paths()['purelib'])")
  echo "import site; site.addsitedir('/venv/lib/python3.12/site-packages')" > $SP/_base.pth
  PIP_NO_INDEX=1 $V/bin/pip install -q --no-index --find-links /opt/veriftools/wheels crosshair-tool z3-solver
fi
$V/bin/python - <<'PY'
import importlib.metadata as m, sys
v = m.version("crosshair-tool")
assert v == "0.0.110", f"engine plug-in is written against crosshair-tool 0.0.110, found {v}"
import z3
print("setup ok: crosshair-tool", v, "z3", z3.get_version_string())
PY
